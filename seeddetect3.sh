#!/bin/bash
# seeddetect.sh <seed-dir>... : for each /verif/seeded/<X> build the harness against a scratch
# copy of /repo with patch.diff applied (cargo `paths` override, separate target dir) and run
# every quick check; prints one line per (seed, property) that reports a violation.
set -u
export CARGO_NET_OFFLINE=true
SFX=${MUT_SFX:-a}; SC=/tmp/mutrepo-$SFX; TG=/tmp/muttarget-$SFX; OUTB=/tmp/mutout-$SFX
PROPS_CONC="C01 C02 C03 C04 C05 C06 C07 C08 C09 C10 C11 C12 C13 C14 C15 C16 C19"
PROPS_SEQ="C01 C08 C12 C16 C18"
EXTRA=1
for S in "$@"; do
  NAME=$(basename "$S")
  rm -rf "$SC" "$OUTB"; mkdir -p "$SC" "$OUTB"
  rsync -a --exclude target --exclude .git /repo/ "$SC"/
  if ! (cd "$SC" && patch -p1 -s < "$S/patch.diff"); then echo "$NAME: patch failed"; continue; fi
  cd /verif
  if ! cargo build --release -p conc --config "paths=[\"$SC\"]" --target-dir "$TG" > /tmp/mutbuild.log 2>&1; then echo "$NAME: conc build failed"; tail -5 /tmp/mutbuild.log; continue; fi
  if ! cargo build --release -p seq --config "paths=[\"$SC\"]" --target-dir "$TG" >> /tmp/mutbuild.log 2>&1; then echo "$NAME: seq build failed"; continue; fi
  CAUGHT=""
  for P in $PROPS_CONC; do
    [ "$P" = C03 ] && [ ! -e /verif/.c03ready ] && continue
    R=$(VERIF_OUT_DIR=$OUTB VERIF_SEED=${VERIF_SEED:-0} timeout 600 "$TG/release/conc" check $P quick 2>&1); RC=$?
    if [ $RC -eq 1 ]; then CAUGHT="$CAUGHT $P(conc)"; echo "$NAME $P conc: $(echo "$R" | grep -A1 VIOLATION | tail -1 | cut -c1-220)"; elif [ $RC -ne 0 ]; then echo "$NAME $P conc: exit $RC $(echo "$R" | tail -1 | cut -c1-160)"; fi
    case "$P" in C06|C07|C13|C14|C15)
      if [ $RC -ne 1 ]; then
        R=$(VERIF_OUT_DIR=$OUTB timeout 600 "$TG/release/conc" enum $P quick 2>&1); RC=$?
        if [ $RC -eq 1 ]; then CAUGHT="$CAUGHT $P(grid)"; echo "$NAME $P grid: $(echo "$R" | grep -A1 VIOLATION | tail -1 | cut -c1-220)"; elif [ $RC -ne 0 ]; then echo "$NAME $P grid: exit $RC $(echo "$R" | tail -1 | cut -c1-160)"; fi
      fi ;;
    esac
  done
  for P in $PROPS_SEQ; do
    R=$(VERIF_OUT_DIR=$OUTB VERIF_SEED=${VERIF_SEED:-0} timeout 600 "$TG/release/seq" check $P quick 2>&1); RC=$?
    if [ $RC -eq 1 ]; then CAUGHT="$CAUGHT $P(seq)"; echo "$NAME $P seq: $(echo "$R" | grep -A1 VIOLATION | tail -1 | cut -c1-220)"; elif [ $RC -ne 0 ]; then echo "$NAME $P seq: exit $RC $(echo "$R" | tail -1 | cut -c1-160)"; fi
  done
  R=$(VERIF_OUT_DIR=$OUTB VERIF_SEED=${VERIF_SEED:-0} timeout 900 "$TG/release/conc" lockcheck C17 quick 2>&1); RC=$?
  if [ $RC -eq 1 ]; then CAUGHT="$CAUGHT C17(lock)"; echo "$NAME C17 lock: $(echo "$R" | grep -A1 VIOLATION | tail -1 | cut -c1-220)"; elif [ $RC -ne 0 ]; then echo "$NAME C17 lock: exit $RC $(echo "$R" | tail -1 | cut -c1-160)"; fi
  R=$(VERIF_REPO=$SC VERIF_OUT_DIR=$OUTB VERIF_SEED=${VERIF_SEED:-0} timeout 900 /verif/target/release/typegen check C20 quick 2>&1); RC=$?
  if [ $RC -eq 1 ]; then CAUGHT="$CAUGHT C20(typegen)"; echo "$NAME C20 typegen: $(echo "$R" | grep -A1 VIOLATION | tail -1 | cut -c1-220)"; elif [ $RC -ne 0 ]; then echo "$NAME C20 typegen: exit $RC $(echo "$R" | tail -1 | cut -c1-160)"; fi
  echo "SUMMARY $NAME caught_by:${CAUGHT:- NONE}"
done
rm -rf "$SC" "$OUTB"
