#!/opt/veriftools/pyvenv/bin/python
import json,jsonschema,sys,glob
jsonschema.validate(json.load(open('/verif/MANIFEST.json')), json.load(open('/root/.vp/MANIFEST.schema.json')))
print('manifest valid')
es=json.load(open('/root/.vp/EVIDENCE.schema.json'))
for f in sorted(glob.glob('/verif/evidence/*.json')):
    try:
        jsonschema.validate(json.load(open(f)), es); print('ok', f)
    except Exception as e:
        print('INVALID', f, str(e)[:200])
