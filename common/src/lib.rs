pub mod driver;
pub mod ops;
