pub mod driver;
pub mod model;
pub mod ops;
