//! Shared driver: proptest worker processes (fixed work, one per core), merging,
//! replay confirmation, evidence files, known findings.

use proptest::strategy::{BoxedStrategy, Strategy};
use proptest::test_runner::{Config, RngAlgorithm, RngSeed, TestCaseError, TestError, TestRunner};
use serde_json::{json, Map, Value};
use std::cell::{Cell, RefCell};
use std::collections::{BTreeMap, BTreeSet};
use std::io::{Seek, SeekFrom, Write};
use std::path::{Path, PathBuf};
use std::time::Instant;

pub const VERIF: &str = "/verif";

/// Where evidence / replays / run scratch go (default /verif; the sensitivity script
/// redirects it so that runs against mutated copies never touch the real evidence).
pub fn out_base() -> PathBuf {
    PathBuf::from(std::env::var("VERIF_OUT_DIR").unwrap_or_else(|_| VERIF.to_string()))
}

/// What one case execution tells the driver.
#[derive(Clone, Debug, Default)]
pub struct CaseOut {
    /// violations of predicates in the property's own set: (predicate, signature, detail)
    pub viols: Vec<(String, String, String)>,
    /// predicate hits outside the property's set (reported in evidence only)
    pub other: Vec<String>,
    /// Some(digest) if the case is non-trivial by the property's rule
    pub nontrivial: Option<u64>,
    pub classes: Vec<(String, u32)>,
    pub inconclusive: bool,
    /// JSON rendering of the case + outcome (for samples / replay files)
    pub sample: Value,
}

pub trait Engine {
    type Case: Clone + std::fmt::Debug;
    fn strategy(&self, prop: &str, tier: &str) -> BoxedStrategy<Self::Case>;
    fn run(&self, prop: &str, case: &Self::Case) -> CaseOut;
    fn encode(&self, case: &Self::Case) -> String;
    fn decode(&self, s: &str) -> Self::Case;
    /// fixed regression cases run before the random ones: (encoded case, generation
    /// profile it was found under if that is not the property's own)
    fn regressions(&self, _prop: &str) -> Vec<(String, Option<String>)> {
        Vec::new()
    }
}

#[derive(Clone, Debug)]
pub struct Known {
    pub property: String,
    pub signature: String,
    pub what: String,
}

pub fn load_known(prop: &str) -> Vec<Known> {
    let p = Path::new(VERIF).join("known_findings.json");
    let Ok(s) = std::fs::read_to_string(p) else { return vec![] };
    let Ok(v) = serde_json::from_str::<Value>(&s) else { return vec![] };
    let mut out = vec![];
    if let Some(a) = v.get("findings").and_then(|x| x.as_array()) {
        for f in a {
            let pr = f.get("property").and_then(|x| x.as_str()).unwrap_or("");
            if pr == prop {
                out.push(Known {
                    property: pr.to_string(),
                    signature: f.get("signature").and_then(|x| x.as_str()).unwrap_or("").to_string(),
                    what: f.get("what").and_then(|x| x.as_str()).unwrap_or("").to_string(),
                });
            }
        }
    }
    out
}

pub fn seed_from_env() -> u64 {
    std::env::var("VERIF_SEED")
        .ok()
        .and_then(|s| s.parse::<u64>().ok())
        .unwrap_or(0)
}

fn rng_seed(seed: u64, worker: u64) -> RngSeed {
    RngSeed::Fixed(seed.wrapping_mul(0x9E3779B97F4A7C15) ^ (worker.wrapping_mul(0xD1B54A32D192ED03)).wrapping_add(0x1234567))
}

#[derive(Default)]
struct Stats {
    evaluations: u64,
    nontrivial: BTreeSet<u64>,
    classes: BTreeMap<String, u64>,
    samples: Vec<Value>,
    inconclusive: u64,
    known: BTreeMap<String, u64>,
    other: BTreeMap<String, u64>,
}

/// Runs `cases` generated cases (plus the regression cases on worker 0) and writes a
/// JSON result file.  Exit code 0 always (the parent decides).
#[allow(clippy::too_many_arguments)]
pub fn run_worker<E: Engine>(
    eng: &E,
    prop: &str,
    tier: &str,
    seed: u64,
    worker: u64,
    cases: u32,
    out: &Path,
) {
    let known = load_known(prop);
    // watchdog: a case that never returns (possible only when the code under test is broken
    // so badly that a call which must complete blocks for ever) is reported as a HANG,
    // which the parent treats as inconclusive (exit 2), never as a violation.
    let progress = std::sync::Arc::new(std::sync::atomic::AtomicU64::new(0));
    {
        let progress = progress.clone();
        let out = out.to_path_buf();
        let limit: u64 = std::env::var("VERIF_HANG_SECS").ok().and_then(|s| s.parse().ok()).unwrap_or(60);
        std::thread::spawn(move || {
            let mut last = u64::MAX;
            let mut idle = 0u64;
            loop {
                std::thread::sleep(std::time::Duration::from_secs(1));
                let p = progress.load(std::sync::atomic::Ordering::Relaxed);
                if p == last {
                    idle += 1;
                } else {
                    idle = 0;
                    last = p;
                }
                if idle >= limit {
                    let cur = std::fs::read_to_string(out.with_extension("cur")).unwrap_or_default();
                    let res = json!({"worker": worker, "evaluations": p, "hang": cur.trim(), "nontrivial": [], "classes": {}, "samples": [], "inconclusive": 1, "known": {}, "other": {}, "failure": null});
                    let _ = std::fs::write(&out, serde_json::to_vec(&res).unwrap());
                    std::process::exit(3);
                }
            }
        });
    }
    let stats = RefCell::new(Stats::default());
    let failed: RefCell<Option<String>> = RefCell::new(None);
    let first_failing: RefCell<Option<String>> = RefCell::new(None);
    let counting = Cell::new(true);
    let cur_path = out.with_extension("cur");
    let cur_file = RefCell::new(std::fs::File::create(&cur_path).expect("cur file"));
    let mut failure: Option<Value> = None;

    let eval = |case: &E::Case| -> Result<(), TestCaseError> {
        {
            let enc = eng.encode(case);
            let mut f = cur_file.borrow_mut();
            let _ = f.seek(SeekFrom::Start(0));
            let _ = f.write_all(enc.as_bytes());
            let _ = f.write_all(b"\n");
            let _ = f.set_len(enc.len() as u64 + 1);
        }
        let o = eng.run(prop, case);
        progress.fetch_add(1, std::sync::atomic::Ordering::Relaxed);
        // split violations into known findings and fresh ones
        let mut fresh: Vec<&(String, String, String)> = Vec::new();
        let mut st = stats.borrow_mut();
        for v in o.viols.iter() {
            if known.iter().any(|k| k.signature == v.1) {
                if counting.get() {
                    *st.known.entry(v.1.clone()).or_insert(0) += 1;
                }
            } else {
                fresh.push(v);
            }
        }
        if counting.get() {
            st.evaluations += 1;
            if o.inconclusive {
                st.inconclusive += 1;
            }
            for (k, n) in o.classes.iter() {
                *st.classes.entry(k.clone()).or_insert(0) += *n as u64;
            }
            for k in o.other.iter() {
                *st.other.entry(k.clone()).or_insert(0) += 1;
            }
            if let Some(d) = o.nontrivial {
                if st.nontrivial.insert(d) && st.samples.len() < 3 {
                    st.samples.push(o.sample.clone());
                }
            }
        }
        drop(st);
        let mut fl = failed.borrow_mut();
        match &*fl {
            None => {
                if let Some(v) = fresh.first() {
                    *fl = Some(v.0.clone());
                    *first_failing.borrow_mut() = Some(eng.encode(case));
                    counting.set(false);
                    return Err(TestCaseError::fail(v.0.clone()));
                }
                Ok(())
            }
            Some(pred) => {
                // shrinking: keep only cases that still violate the same predicate
                if fresh.iter().any(|v| &v.0 == pred) {
                    Err(TestCaseError::fail(pred.clone()))
                } else {
                    Ok(())
                }
            }
        }
    };

    // regression cases first (worker 0 only); they were found in the quick tier and are
    // decoded with the quick profile whatever tier is running
    std::env::set_var("VERIF_CASE_TIER", "quick");
    if worker == 0 {
        for (enc, profile) in eng.regressions(prop) {
            let case = eng.decode(&enc);
            match &profile {
                Some(p) => std::env::set_var("VERIF_CASE_PROFILE", p),
                None => std::env::remove_var("VERIF_CASE_PROFILE"),
            }
            let r = eval(&case);
            if r.is_err() {
                let o = eng.run(prop, &case);
                failure = Some(json!({
                    "property": prop,
                    "predicate": failed.borrow().clone().unwrap_or_default(),
                    "case": enc,
                    "from": "regression",
                    "tier": "quick",
                    "profile": profile,
                    "violations": o.viols.iter().map(|v| json!({"predicate": v.0, "signature": v.1, "detail": v.2})).collect::<Vec<_>>(),
                    "sample": o.sample,
                }));
                break;
            }
        }
    }

    std::env::set_var("VERIF_CASE_TIER", tier);
    if failure.is_none() {
        std::env::remove_var("VERIF_CASE_PROFILE");
    }
    if failure.is_none() && cases > 0 {
        let cfg = Config {
            cases,
            failure_persistence: None,
            rng_seed: rng_seed(seed, worker),
            rng_algorithm: RngAlgorithm::ChaCha,
            max_shrink_iters: std::env::var("VERIF_MAX_SHRINK").ok().and_then(|s| s.parse().ok()).unwrap_or(1500),
            max_global_rejects: 1 << 30,
            max_local_rejects: 1 << 30,
            ..Config::default()
        };
        let mut runner = TestRunner::new(cfg);
        let strat = eng.strategy(prop, tier);
        match runner.run(&strat, |c| eval(&c)) {
            Ok(()) => {}
            Err(TestError::Fail(_, minimal)) => {
                let o = eng.run(prop, &minimal);
                failure = Some(json!({
                    "property": prop,
                    "predicate": failed.borrow().clone().unwrap_or_default(),
                    "case": eng.encode(&minimal),
                    "from": "generated+shrunk",
                    "unshrunk_case": first_failing.borrow().clone(),
                    "tier": tier,
                    "seed": seed,
                    "worker": worker,
                    "violations": o.viols.iter().map(|v| json!({"predicate": v.0, "signature": v.1, "detail": v.2})).collect::<Vec<_>>(),
                    "sample": o.sample,
                }));
            }
            Err(TestError::Abort(r)) => {
                eprintln!("worker {} aborted: {}", worker, r);
            }
        }
    }

    let st = stats.borrow();
    let res = json!({
        "worker": worker,
        "evaluations": st.evaluations,
        "nontrivial": st.nontrivial.iter().map(|x| format!("{:016x}", x)).collect::<Vec<_>>(),
        "classes": st.classes,
        "samples": st.samples,
        "inconclusive": st.inconclusive,
        "known": st.known,
        "other": st.other,
        "failure": failure,
    });
    std::fs::write(out, serde_json::to_vec(&res).unwrap()).expect("write worker result");
    let _ = std::fs::remove_file(cur_path);
}

pub struct ParentCfg<'a> {
    pub prop: &'a str,
    pub tier: &'a str,
    pub seed: u64,
    pub workers: u64,
    pub cases_per_worker: u32,
    pub level: &'a str,
    pub rule: &'a str,
    pub assumptions: Vec<String>,
    /// extra argv for the worker invocation (before the standard ones)
    pub exe_args: Vec<String>,
    pub engine_name: &'a str,
}

pub fn digest(s: &str) -> u64 {
    let mut h: u64 = 0xcbf29ce484222325;
    for b in s.bytes() {
        h ^= b as u64;
        h = h.wrapping_mul(0x100000001b3);
    }
    h
}

/// Spawns the workers, merges, confirms a failure by strict replay, writes evidence.
/// Returns the process exit code.
pub fn run_parent<E: Engine>(eng: &E, cfg: ParentCfg) -> i32 {
    let t0 = Instant::now();
    let exe = std::env::current_exe().expect("current exe");
    let dir = out_base().join("target").join("runs").join(format!("{}-{}-{}", cfg.engine_name, cfg.prop, cfg.tier));
    let _ = std::fs::remove_dir_all(&dir);
    std::fs::create_dir_all(&dir).expect("run dir");
    let spawn_worker = |w: u64| -> (u64, PathBuf, std::process::Child) {
        let out = dir.join(format!("w{}.json", w));
        let mut c = std::process::Command::new(&exe);
        c.args(&cfg.exe_args)
            .arg("worker")
            .arg(cfg.prop)
            .arg(cfg.tier)
            .arg(cfg.seed.to_string())
            .arg(w.to_string())
            .arg(cfg.cases_per_worker.to_string())
            .arg(&out)
            .env("RUST_BACKTRACE", "0");
        // process creation can fail transiently on an overloaded machine: retry
        let mut tries = 0;
        loop {
            match c.spawn() {
                Ok(k) => return (w, out, k),
                Err(e) => {
                    tries += 1;
                    if tries > 100 {
                        panic!("spawn worker: {}", e);
                    }
                    std::thread::sleep(std::time::Duration::from_millis(100));
                }
            }
        }
    };
    let mut kids = std::collections::VecDeque::new();
    for w in 0..cfg.workers {
        kids.push_back(spawn_worker(w));
    }
    // A hang (watchdog) ends a worker at its first hanging case and hides whatever lies behind
    // it.  When a wave of workers produced hangs but no failure, up to two further waves with
    // fresh PRNG streams (worker ids + 1000, + 2000) look for a case in which the same defect
    // shows as a wrong result before it shows as a hang.  Hangs stay inconclusive (exit 2).
    let mut wave = 0u64;
    let mut hangs_seen_by_wave = 0usize;
    let mut merged = Stats::default();
    let mut failures: Vec<Value> = Vec::new();
    let mut crashed: Vec<(u64, String)> = Vec::new();
    let mut hangs: Vec<(u64, String)> = Vec::new();
    while let Some((w, out, mut k)) = kids.pop_front() {
        let mut st = k.wait().expect("wait worker");
        if !out.exists() {
            // the worker died without a result (signal, abort, resource exhaustion).  Run its
            // share once more: if it dies again the death belongs to its current case; if it
            // completes, the first death was environmental and is only recorded.
            let first_case = std::fs::read_to_string(out.with_extension("cur")).unwrap_or_default();
            let (_, _, mut k2) = spawn_worker(w);
            let st2 = k2.wait().expect("wait worker");
            if out.exists() {
                crashed.push((w, format!("first attempt died with {:?} (case {}), second attempt completed", st, first_case.trim().chars().take(80).collect::<String>())));
            }
            st = st2;
        }
        let cur = out.with_extension("cur");
        match std::fs::read(&out).ok().and_then(|b| serde_json::from_slice::<Value>(&b).ok()) {
            Some(v) => {
                merged.evaluations += v["evaluations"].as_u64().unwrap_or(0);
                merged.inconclusive += v["inconclusive"].as_u64().unwrap_or(0);
                if let Some(a) = v["nontrivial"].as_array() {
                    for x in a {
                        if let Some(s) = x.as_str() {
                            merged.nontrivial.insert(u64::from_str_radix(s, 16).unwrap_or(0));
                        }
                    }
                }
                for (name, tgt) in [("classes", &mut merged.classes), ("known", &mut merged.known), ("other", &mut merged.other)] {
                    if let Some(m) = v[name].as_object() {
                        for (k, n) in m {
                            *tgt.entry(k.clone()).or_insert(0) += n.as_u64().unwrap_or(0);
                        }
                    }
                }
                if let Some(a) = v["samples"].as_array() {
                    for s in a {
                        if merged.samples.len() < 4 {
                            merged.samples.push(s.clone());
                        }
                    }
                }
                if !v["failure"].is_null() {
                    failures.push(v["failure"].clone());
                }
                if let Some(h) = v["hang"].as_str() {
                    hangs.push((w, h.to_string()));
                }
            }
            None => {
                // worker died (signal / abort): the case it was running is the suspect
                let case = std::fs::read_to_string(&cur).unwrap_or_default();
                crashed.push((w, format!("status {:?}; case {}", st, case.trim())));
                if !case.trim().is_empty() {
                    failures.push(json!({
                        "property": cfg.prop,
                        "predicate": "worker_crash",
                        "case": case.trim(),
                        "from": "worker died while running this case",
                        "tier": cfg.tier,
                        "violations": [{"predicate": "worker_crash", "signature": format!("{}/worker_crash", cfg.prop), "detail": format!("{:?}", st)}],
                    }));
                }
            }
        }
        if kids.is_empty() && failures.is_empty() && hangs.len() > hangs_seen_by_wave && wave < 2 {
            wave += 1;
            let n = ((hangs.len() - hangs_seen_by_wave) as u64).min(cfg.workers);
            hangs_seen_by_wave = hangs.len();
            for w in 0..n {
                kids.push_back(spawn_worker(1000 * wave + w));
            }
        }
    }
    let known = load_known(cfg.prop);
    let mut code = 0;
    let mut violations = 0;
    let mut lines: Vec<String> = Vec::new();
    if let Some(f) = failures.first() {
        // confirm by strict replay in a child process
        let enc = f["case"].as_str().unwrap_or("").to_string();
        let rdir = out_base().join("replays");
        let _ = std::fs::create_dir_all(&rdir);
        let name = format!("{}-{:016x}.json", cfg.prop, digest(&enc));
        let rpath = rdir.join(&name);
        let mut rv = f.clone();
        if let Some(m) = rv.as_object_mut() {
            m.insert("engine".into(), json!(cfg.engine_name));
            m.insert("replay_cmd".into(), json!(format!("./check {} --replay {}", cfg.prop, rpath.display())));
        }
        std::fs::write(&rpath, serde_json::to_vec_pretty(&rv).unwrap()).expect("write replay");
        let st = std::process::Command::new(&exe)
            .args(&cfg.exe_args)
            .arg("replay")
            .arg(cfg.prop)
            .arg(&rpath)
            .env("RUST_BACKTRACE", "0")
            .stdout(std::process::Stdio::null())
            .status();
        let mut confirmed = match st {
            Ok(s) => s.code() != Some(0),
            Err(_) => false,
        };
        if !confirmed {
            // shrinking may have wandered off (e.g. when the code under test corrupts memory and
            // later cases misbehave): fall back to the case that failed first, unshrunk
            if let Some(un) = f["unshrunk_case"].as_str() {
                let mut rv2 = rv.clone();
                if let Some(m) = rv2.as_object_mut() {
                    m.insert("case".into(), json!(un));
                    m.insert("from".into(), json!("generated (unshrunk: the shrunk case did not reproduce)"));
                }
                std::fs::write(&rpath, serde_json::to_vec_pretty(&rv2).unwrap()).expect("write replay");
                let st2 = std::process::Command::new(&exe)
                    .args(&cfg.exe_args)
                    .arg("replay")
                    .arg(cfg.prop)
                    .arg(&rpath)
                    .env("RUST_BACKTRACE", "0")
                    .stdout(std::process::Stdio::null())
                    .status();
                confirmed = matches!(st2, Ok(s) if s.code() != Some(0));
            }
        }
        if confirmed {
            lines.push(format!("VIOLATION property={} replay={}", cfg.prop, rpath.display()));
            if let Some(vs) = f["violations"].as_array() {
                for v in vs.iter().take(3) {
                    lines.push(format!("  {}: {}", v["predicate"].as_str().unwrap_or(""), v["detail"].as_str().unwrap_or("")));
                }
            }
            violations = failures.len() as i64;
            code = 1;
        } else {
            lines.push(format!("UNREPRODUCIBLE failure (not reported as a violation): {}", rpath.display()));
            code = 2;
        }
    }
    if !hangs.is_empty() {
        let rdir = out_base().join("replays");
        let _ = std::fs::create_dir_all(&rdir);
        let rpath = rdir.join(format!("{}-hang-{:016x}.json", cfg.prop, digest(&hangs[0].1)));
        let rv = json!({"property": cfg.prop, "engine": cfg.engine_name, "tier": cfg.tier, "case": hangs[0].1, "predicate": "hang", "from": "worker watchdog: the case did not return", "violations": []});
        let _ = std::fs::write(&rpath, serde_json::to_vec_pretty(&rv).unwrap());
        lines.push(format!(
            "HANG (inconclusive, not a violation): {} worker(s) stopped making progress; case saved as {}",
            hangs.len(),
            rpath.display()
        ));
        if code == 0 {
            code = 2;
        }
    }
    for k in known.iter() {
        lines.push(format!(
            "KNOWN-FINDING: property={} {} [{}] (seen {} time(s) in this run)",
            cfg.prop,
            k.what,
            k.signature,
            merged.known.get(&k.signature).copied().unwrap_or(0)
        ));
    }
    if merged.evaluations == 0 && code == 0 {
        lines.push("no case could be evaluated".into());
        code = 2;
    }
    let wall = t0.elapsed().as_secs_f64();
    let mut cov = Map::new();
    cov.insert("evaluations".into(), json!(merged.evaluations));
    cov.insert("distinct_nontrivial".into(), json!(merged.nontrivial.len()));
    cov.insert("rule".into(), json!(cfg.rule));
    cov.insert("samples".into(), json!(merged.samples));
    cov.insert("classes".into(), json!(merged.classes));
    cov.insert("inconclusive".into(), json!(merged.inconclusive));
    cov.insert("known_findings_seen".into(), json!(merged.known));
    cov.insert("other_predicate_hits".into(), json!(merged.other));
    cov.insert("workers".into(), json!(cfg.workers));
    cov.insert("cases_per_worker".into(), json!(cfg.cases_per_worker));
    cov.insert("crashed_workers".into(), json!(crashed.iter().map(|c| format!("{}: {}", c.0, c.1)).collect::<Vec<_>>()));
    cov.insert("engine".into(), json!(cfg.engine_name));
    let ev = json!({
        "property_id": cfg.prop,
        "tier": cfg.tier,
        "seed": cfg.seed,
        "level": cfg.level,
        "coverage": Value::Object(cov),
        "assumptions": cfg.assumptions,
        "wall_s": wall,
        "violations": violations,
    });
    write_evidence(cfg.prop, &ev);
    for l in lines {
        println!("{}", l);
    }
    println!(
        "{} {} seed={} engine={}: {} evaluations, {} distinct non-trivial, {} inconclusive, {:.1}s, exit {}",
        cfg.prop,
        cfg.tier,
        cfg.seed,
        cfg.engine_name,
        merged.evaluations,
        merged.nontrivial.len(),
        merged.inconclusive,
        wall,
        code
    );
    code
}

/// Evidence files may be written by several engines serving one property: merge by
/// engine name under coverage.parts, keeping the required top-level keys as sums.
pub fn write_evidence(prop: &str, ev: &Value) {
    let dir = out_base().join("evidence");
    let _ = std::fs::create_dir_all(&dir);
    let path = dir.join(format!("{}.json", prop));
    let merge = std::env::var("VERIF_EVIDENCE_APPEND").ok().as_deref() == Some("1");
    let mut out = ev.clone();
    if merge {
        if let Some(old) = std::fs::read(&path).ok().and_then(|b| serde_json::from_slice::<Value>(&b).ok()) {
            let oc = &old["coverage"];
            let nc = out["coverage"].clone();
            let mut parts: Vec<Value> = oc["parts"].as_array().cloned().unwrap_or_else(|| vec![oc.clone()]);
            parts.push(nc.clone());
            let sum = |k: &str| -> u64 { parts.iter().map(|p| p[k].as_u64().unwrap_or(0)).sum() };
            let mut samples: Vec<Value> = Vec::new();
            for p in parts.iter() {
                if let Some(a) = p["samples"].as_array() {
                    for s in a.iter().take(2) {
                        samples.push(s.clone());
                    }
                }
            }
            let rule = parts
                .iter()
                .map(|p| format!("[{}] {}", p["engine"].as_str().unwrap_or("?"), p["rule"].as_str().unwrap_or("")))
                .collect::<Vec<_>>()
                .join(" || ");
            let mut stripped: Vec<Value> = Vec::new();
            for p in parts.iter() {
                let mut q = p.clone();
                if let Some(m) = q.as_object_mut() {
                    m.remove("parts");
                }
                stripped.push(q);
            }
            out["coverage"] = json!({
                "evaluations": sum("evaluations"),
                "distinct_nontrivial": sum("distinct_nontrivial"),
                "rule": rule,
                "samples": samples,
                "inconclusive": sum("inconclusive"),
                "parts": stripped,
            });
            out["wall_s"] = json!(old["wall_s"].as_f64().unwrap_or(0.0) + ev["wall_s"].as_f64().unwrap_or(0.0));
            out["violations"] = json!(old["violations"].as_i64().unwrap_or(0) + ev["violations"].as_i64().unwrap_or(0));
            let mut asm: Vec<Value> = old["assumptions"].as_array().cloned().unwrap_or_default();
            for x in ev["assumptions"].as_array().cloned().unwrap_or_default() {
                if !asm.contains(&x) {
                    asm.push(x);
                }
            }
            out["assumptions"] = json!(asm);
        }
    }
    std::fs::write(&path, serde_json::to_vec_pretty(&out).unwrap()).expect("write evidence");
}

/// Strict replay of a replay file: exit code 1 + VIOLATION line if it still fails.
pub fn run_replay<E: Engine>(eng: &E, prop: &str, path: &Path) -> i32 {
    let Ok(b) = std::fs::read(path) else {
        eprintln!("cannot read {}", path.display());
        return 2;
    };
    let Ok(v) = serde_json::from_slice::<Value>(&b) else {
        eprintln!("cannot parse {}", path.display());
        return 2;
    };
    let enc = v["case"].as_str().unwrap_or("");
    std::env::set_var("VERIF_CASE_TIER", v["tier"].as_str().unwrap_or("quick"));
    if let Some(p) = v["profile"].as_str() {
        // the case was generated under another generation profile (fuzz tier: "ALL")
        std::env::set_var("VERIF_CASE_PROFILE", p);
    }
    let case = eng.decode(enc);
    let o = eng.run(prop, &case);
    println!("{}", serde_json::to_string_pretty(&o.sample).unwrap());
    if o.viols.is_empty() {
        println!("replay: no violation of {} on this tree", prop);
        0
    } else {
        for v in o.viols.iter() {
            println!("  {} [{}]: {}", v.0, v.1, v.2);
        }
        println!("VIOLATION property={} replay={}", prop, path.display());
        1
    }
}

pub fn boxed<S: Strategy + 'static>(s: S) -> BoxedStrategy<S::Value> {
    s.boxed()
}

/// Tier whose profile the case being run was generated with.
pub fn case_tier() -> String {
    std::env::var("VERIF_CASE_TIER").unwrap_or_else(|_| "quick".into())
}
