//! Reference channel: a queue plus one waiting list, every operation one atomic step.
//! Read from the code (DESIGN.md Appendix A) and used by the single-thread lock-step
//! engine (C18/C16/C12) and by the atomic-channel explainability search (C03).

use std::collections::{BTreeMap, VecDeque};

pub type Val = u32;
pub type Owner = u32;

#[derive(Clone, Copy, Debug, PartialEq, Eq, Hash, PartialOrd, Ord)]
pub enum Err {
    Closed,
    SendClosed,
    ReceiveClosed,
    Timeout,
}

#[derive(Clone, Copy, Debug, PartialEq, Eq, Hash, PartialOrd, Ord)]
pub enum Comp {
    /// blocked sender: value taken by a receiver
    Sent,
    /// blocked receiver: got this value
    Got(Val),
    /// released by close / last handle of the other side
    Terminated,
}

#[derive(Clone, Debug, PartialEq, Eq, Hash)]
pub enum Waiter {
    S(Val, Owner),
    R(Owner),
}
impl Waiter {
    pub fn owner(&self) -> Owner {
        match self {
            Waiter::S(_, o) | Waiter::R(o) => *o,
        }
    }
}

#[derive(Clone, Debug, PartialEq, Eq, Hash)]
pub struct Chan {
    pub cap: Option<usize>,
    pub queue: VecDeque<Val>,
    pub waiters: VecDeque<Waiter>,
    pub senders: u32,
    pub receivers: u32,
    /// completions not yet collected by their owner
    pub done: BTreeMap<Owner, Comp>,
    /// values destroyed by the channel (close), in order
    pub destroyed: Vec<Val>,
    /// owners completed by the last step, in order (for wake accounting)
    pub woken: Vec<Owner>,
}

#[derive(Clone, Debug, PartialEq, Eq, Hash)]
pub enum SendOut {
    Ok,
    Err(Err),
    /// buffer full and nobody waiting to receive
    Full,
}

#[derive(Clone, Debug, PartialEq, Eq, Hash)]
pub enum RecvOut {
    Val(Val),
    Err(Err),
    Empty,
}

#[derive(Clone, Debug, PartialEq, Eq, Hash, Default)]
pub struct MObs {
    pub len: usize,
    pub is_empty: bool,
    pub is_full: bool,
    pub capacity: usize,
    pub is_bounded: bool,
    pub senders: u32,
    pub receivers: u32,
    pub is_closed: bool,
    pub s_disconnected: bool,
    pub r_disconnected: bool,
    pub is_terminated: bool,
}

impl Chan {
    pub fn new(cap: Option<usize>, senders: u32, receivers: u32) -> Self {
        Chan {
            cap,
            queue: VecDeque::new(),
            waiters: VecDeque::new(),
            senders,
            receivers,
            done: BTreeMap::new(),
            destroyed: Vec::new(),
            woken: Vec::new(),
        }
    }

    pub fn closed(&self) -> bool {
        self.senders == 0 && self.receivers == 0
    }

    fn complete(&mut self, o: Owner, c: Comp) {
        self.done.insert(o, c);
        self.woken.push(o);
    }

    fn head_is_recv(&self) -> bool {
        matches!(self.waiters.front(), Some(Waiter::R(_)))
    }
    fn head_is_send(&self) -> bool {
        matches!(self.waiters.front(), Some(Waiter::S(..)))
    }

    /// The non-registering part of every send-like operation.
    pub fn send(&mut self, v: Val) -> SendOut {
        self.woken.clear();
        if self.receivers == 0 {
            return SendOut::Err(if self.senders == 0 { Err::Closed } else { Err::ReceiveClosed });
        }
        if self.head_is_recv() {
            let w = self.waiters.pop_front().unwrap();
            self.complete(w.owner(), Comp::Got(v));
            return SendOut::Ok;
        }
        let room = match self.cap {
            None => true,
            Some(n) => self.queue.len() < n,
        };
        if room {
            self.queue.push_back(v);
            SendOut::Ok
        } else {
            SendOut::Full
        }
    }

    pub fn register_send(&mut self, v: Val, o: Owner) {
        self.waiters.push_back(Waiter::S(v, o));
    }

    /// The non-registering part of every receive-like operation.
    pub fn recv(&mut self) -> RecvOut {
        self.woken.clear();
        if self.receivers == 0 {
            return RecvOut::Err(Err::Closed);
        }
        if let Some(x) = self.queue.pop_front() {
            if self.head_is_send() {
                if let Some(Waiter::S(v, o)) = self.waiters.pop_front() {
                    self.queue.push_back(v);
                    self.complete(o, Comp::Sent);
                }
            }
            return RecvOut::Val(x);
        }
        if self.head_is_send() {
            if let Some(Waiter::S(v, o)) = self.waiters.pop_front() {
                self.complete(o, Comp::Sent);
                return RecvOut::Val(v);
            }
        }
        if self.senders == 0 {
            return RecvOut::Err(Err::SendClosed);
        }
        RecvOut::Empty
    }

    pub fn register_recv(&mut self, o: Owner) {
        self.waiters.push_back(Waiter::R(o));
    }

    pub fn is_registered(&self, o: Owner) -> bool {
        self.waiters.iter().any(|w| w.owner() == o)
    }

    /// Timeout / cancellation of a registered waiter: removes its own entry only.
    /// Returns the value of a cancelled sender.
    pub fn cancel(&mut self, o: Owner) -> Option<Option<Val>> {
        self.woken.clear();
        let pos = self.waiters.iter().position(|w| w.owner() == o)?;
        match self.waiters.remove(pos).unwrap() {
            Waiter::S(v, _) => Some(Some(v)),
            Waiter::R(_) => Some(None),
        }
    }

    /// Take a completion (the owner observes it).
    pub fn collect(&mut self, o: Owner) -> Option<Comp> {
        self.done.remove(&o)
    }

    pub fn drain(&mut self) -> Result<Vec<Val>, Err> {
        self.woken.clear();
        if self.receivers == 0 {
            return Result::Err(Err::Closed);
        }
        let mut out: Vec<Val> = self.queue.drain(..).collect();
        while self.head_is_send() {
            if let Some(Waiter::S(v, o)) = self.waiters.pop_front() {
                out.push(v);
                self.complete(o, Comp::Sent);
            }
        }
        Ok(out)
    }

    fn terminate_all(&mut self) {
        while let Some(w) = self.waiters.pop_front() {
            self.complete(w.owner(), Comp::Terminated);
        }
    }

    pub fn close(&mut self) -> bool {
        self.woken.clear();
        if self.closed() {
            return false;
        }
        self.senders = 0;
        self.receivers = 0;
        self.terminate_all();
        let q: Vec<Val> = self.queue.drain(..).collect();
        self.destroyed.extend(q);
        true
    }

    pub fn clone_side(&mut self, send: bool) {
        self.woken.clear();
        if send {
            if self.senders > 0 {
                self.senders += 1;
            }
        } else if self.receivers > 0 {
            self.receivers += 1;
        }
    }

    pub fn drop_side(&mut self, send: bool) {
        self.woken.clear();
        if send {
            if self.senders > 0 {
                self.senders -= 1;
                if self.senders == 0 && self.receivers != 0 {
                    self.terminate_all();
                }
            }
        } else if self.receivers > 0 {
            self.receivers -= 1;
            if self.receivers == 0 && self.senders != 0 {
                self.terminate_all();
            }
        }
    }

    pub fn observe(&self) -> MObs {
        let len = self.queue.len();
        MObs {
            len,
            is_empty: len == 0,
            is_full: self.cap == Some(len),
            capacity: self.cap.unwrap_or(usize::MAX),
            is_bounded: self.cap.is_some(),
            senders: self.senders,
            receivers: self.receivers,
            is_closed: self.closed(),
            s_disconnected: self.receivers == 0,
            r_disconnected: self.senders == 0,
            is_terminated: self.senders == 0 && len == 0,
        }
    }
}
