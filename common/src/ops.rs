//! Operation alphabet, case encoding and per-property generation profiles for the
//! concurrent engine.  A case is plain bytes so that proptest (structured vectors of
//! bytes, shrinking by deletion / towards zero) and libFuzzer (one flat byte string)
//! share one decoder.

use serde_json::{json, Value};

#[derive(Clone, Copy, PartialEq, Eq, Debug, Hash, PartialOrd, Ord)]
#[repr(u8)]
pub enum K {
    Send = 0,
    SendTimeout,
    SendOptTimeout,
    TrySend,
    TrySendOpt,
    TrySendRt,
    TrySendOptRt,
    AsyncSend,
    Recv,
    RecvTimeout,
    TryRecv,
    TryRecvRt,
    Drain,
    IterNext,
    AsyncRecv,
    StreamNext,
    StreamDrop,
    CloneH,
    ConvertH,
    DropH,
    Close,
    Observe,
    Yield,
    Skip,
}
pub const NK: usize = 24;
pub const ALL_K: [K; NK] = [
    K::Send,
    K::SendTimeout,
    K::SendOptTimeout,
    K::TrySend,
    K::TrySendOpt,
    K::TrySendRt,
    K::TrySendOptRt,
    K::AsyncSend,
    K::Recv,
    K::RecvTimeout,
    K::TryRecv,
    K::TryRecvRt,
    K::Drain,
    K::IterNext,
    K::AsyncRecv,
    K::StreamNext,
    K::StreamDrop,
    K::CloneH,
    K::ConvertH,
    K::DropH,
    K::Close,
    K::Observe,
    K::Yield,
    K::Skip,
];

impl K {
    pub fn is_send(self) -> bool {
        (self as u8) <= K::AsyncSend as u8
    }
    pub fn is_recv(self) -> bool {
        (self as u8) >= K::Recv as u8 && (self as u8) <= K::StreamDrop as u8
    }
    pub fn is_try(self) -> bool {
        matches!(
            self,
            K::TrySend
                | K::TrySendOpt
                | K::TrySendRt
                | K::TrySendOptRt
                | K::TryRecv
                | K::TryRecvRt
                | K::Drain
        )
    }
    pub fn is_rt(self) -> bool {
        matches!(self, K::TrySendRt | K::TrySendOptRt | K::TryRecvRt)
    }
    pub fn is_timed(self) -> bool {
        matches!(self, K::SendTimeout | K::SendOptTimeout | K::RecvTimeout)
    }
    pub fn is_option(self) -> bool {
        matches!(self, K::SendOptTimeout | K::TrySendOpt | K::TrySendOptRt)
    }
    pub fn is_async(self) -> bool {
        matches!(self, K::AsyncSend | K::AsyncRecv | K::StreamNext)
    }
    pub fn name(self) -> &'static str {
        match self {
            K::Send => "send",
            K::SendTimeout => "send_timeout",
            K::SendOptTimeout => "send_option_timeout",
            K::TrySend => "try_send",
            K::TrySendOpt => "try_send_option",
            K::TrySendRt => "try_send_realtime",
            K::TrySendOptRt => "try_send_option_realtime",
            K::AsyncSend => "async_send",
            K::Recv => "recv",
            K::RecvTimeout => "recv_timeout",
            K::TryRecv => "try_recv",
            K::TryRecvRt => "try_recv_realtime",
            K::Drain => "drain_into",
            K::IterNext => "iter_next",
            K::AsyncRecv => "async_recv",
            K::StreamNext => "stream_next",
            K::StreamDrop => "stream_drop",
            K::CloneH => "clone",
            K::ConvertH => "convert",
            K::DropH => "drop_handle",
            K::Close => "close",
            K::Observe => "observe",
            K::Yield => "yield",
            K::Skip => "skip",
        }
    }
}

/// Virtual durations (ticks) for timed operations.
pub const DUR: [u64; 5] = [0, 1, 3, 10, 1000];

/// Steps of an async script (one nibble each).
#[derive(Clone, Copy, PartialEq, Eq, Debug, Hash)]
pub enum Step {
    /// wait for the registered waker, poll, repeat until complete (terminal)
    Await,
    /// re-poll immediately with the same waker object (spurious poll)
    PollSame,
    /// re-poll immediately with a different waker object
    PollNew,
    /// wait for the registered waker to fire, then poll once
    WaitPoll,
    Yield(u32),
    /// drop the future / stream here
    Drop,
    /// after completion, poll once more (documented panic for non-stream futures)
    PollAfterDone,
    /// re-poll with a different waker that shares the DATA pointer of the current one and
    /// differs only in its vtable (`will_wake` must still say "different")
    PollSibling,
}

/// `bias`: 0 = neutral, 1 = cancellation-heavy (C15), 2 = re-poll-heavy (C16).
pub fn decode_script(a: u8, b: u8, bias: u8) -> [Step; 4] {
    let nib = [a & 15, a >> 4, b & 15, b >> 4];
    let mut out = [Step::Await; 4];
    for i in 0..4 {
        out[i] = match (nib[i], bias) {
            (0, _) => Step::Await,
            (1, _) => Step::PollSame,
            (2, _) => Step::PollNew,
            (3, _) => Step::WaitPoll,
            (4, _) => Step::Yield(2),
            (5, _) => Step::Yield(20),
            (6, _) => Step::Drop,
            (7, _) => Step::Yield(300),
            (8, _) => Step::PollAfterDone,
            (9, 1) | (10, 1) | (13, 1) => Step::Drop,
            (11, 1) => Step::Yield(1),
            (12, 1) => Step::Yield(7),
            (14, 1) => Step::Yield(60),
            (9, 2) | (13, 2) => Step::PollSame,
            (10, 2) | (11, 2) => Step::PollNew,
            (12, 2) => Step::WaitPoll,
            (14, 2) => Step::PollAfterDone,
            (15, _) => Step::PollSibling,
            _ => Step::Await,
        };
    }
    out
}

/// Reported hardware parallelism of a case: 1, or more than one (mostly 16; 2 and 128 probe
/// thresholds in the backoff arithmetic).
pub fn parallelism_of(cfg1: u8) -> usize {
    if cfg1 & 2 != 0 {
        1
    } else {
        match (cfg1 >> 2) & 7 {
            6 => 128,
            7 => 2,
            _ => 16,
        }
    }
}

#[derive(Clone, Copy, PartialEq, Eq, Debug, Hash)]
pub struct Op {
    pub k: K,
    pub h: u8,
    pub a: u8,
    pub b: u8,
}

#[derive(Clone, Copy, PartialEq, Eq, Debug, Hash)]
pub enum Cap {
    N(usize),
    Unbounded,
}

#[derive(Clone, Copy, PartialEq, Eq, Debug, Hash, PartialOrd, Ord)]
#[repr(u8)]
pub enum Pay {
    Z0,
    ZA,
    P1,
    P4,
    P8,
    P16,
    P40,
    PR,
    U8,
    U16,
    U32,
    U64,
    U128,
    PB,
    /// 1 KiB tagged payload
    PBIG,
    /// 64 bytes, 64-byte aligned, tagged
    PA64,
    /// 8 200 bytes, tagged: beyond any page-sized "large message" threshold.  Not a member of
    /// the profile lists: a case whose class decodes to PBIG becomes PHUGE when bits 7 and 3 of the
    /// salt byte are set (so existing cases keep their decoding and shrinking leads to PBIG)
    PHUGE,
    /// 3, 5, 6, 7 bytes (alignment 1), tagged like P1.  Not members of the profile lists either:
    /// a case whose class decodes to P4 becomes one of them by bits 5-6 of the salt byte
    P3,
    P5,
    P6,
    P7,
    /// tagged payload whose destructor re-enters the channel (calls `len()` on a live handle),
    /// like a message that owns a handle of its own channel
    PH,
}
impl Pay {
    pub fn name(self) -> &'static str {
        match self {
            Pay::Z0 => "Z0",
            Pay::ZA => "ZA",
            Pay::P1 => "P1",
            Pay::P4 => "P4",
            Pay::P8 => "P8",
            Pay::P16 => "P16",
            Pay::P40 => "P40",
            Pay::PR => "PR",
            Pay::U8 => "u8",
            Pay::U16 => "u16",
            Pay::U32 => "u32",
            Pay::U64 => "u64",
            Pay::U128 => "u128",
            Pay::PB => "PB",
            Pay::PBIG => "PBIG",
            Pay::PA64 => "PA64",
            Pay::PHUGE => "PHUGE",
            Pay::P3 => "P3",
            Pay::P5 => "P5",
            Pay::P6 => "P6",
            Pay::P7 => "P7",
            Pay::PH => "PH",
        }
    }
}
pub const TAGGED: [Pay; 6] = [Pay::P1, Pay::P4, Pay::P8, Pay::P16, Pay::P40, Pay::PR];
pub const ALL_PAY: [Pay; 15] = [
    Pay::Z0,
    Pay::ZA,
    Pay::P1,
    Pay::P4,
    Pay::P8,
    Pay::P16,
    Pay::P40,
    Pay::PR,
    Pay::U8,
    Pay::U16,
    Pay::U32,
    Pay::U64,
    Pay::U128,
    Pay::PBIG,
    Pay::PA64,
];

/// Generation profile of one property check.
#[derive(Clone, Debug)]
pub struct Profile {
    pub name: &'static str,
    pub threads: (usize, usize),
    pub max_ops: usize,
    pub weights: Vec<(K, u32)>,
    pub caps: Vec<Cap>,
    pub pays: Vec<Pay>,
    pub max_sched: usize,
    /// force every thread to own both flavours of the sides it has
    pub mix_flavours: bool,
    /// ops of the low-priority prober thread (0 = none)
    pub prober_ops: usize,
    pub prober_weights: Vec<(K, u32)>,
    /// how async scripts are decoded (see `decode_script`)
    pub script_bias: u8,
    /// allow a generated backlog (see `Case::decode`)
    pub prefill: bool,
    /// first generation of the profile (regression cases): no derived payload classes
    pub first_gen: bool,
}

fn pick_weighted(w: &[(K, u32)], b: u8) -> K {
    let total: u32 = w.iter().map(|x| x.1).sum();
    if total == 0 {
        return K::Skip;
    }
    let x = (b as u32 * total) >> 8;
    let mut acc = 0;
    for (k, wt) in w {
        acc += wt;
        if x < acc {
            return *k;
        }
    }
    w[w.len() - 1].0
}

/// Raw case: everything is bytes.
#[derive(Clone, Debug, PartialEq, Eq, Hash)]
pub struct Case {
    pub cfg: [u8; 6],
    pub threads: Vec<Vec<[u8; 4]>>,
    pub prober: Vec<[u8; 4]>,
    pub sched: Vec<u8>,
}

/// What each thread receives at start.
#[derive(Clone, Copy, Debug, PartialEq, Eq, Hash)]
pub struct Grant {
    /// 0 none, 1 sync, 2 async, 3 both
    pub send: u8,
    pub recv: u8,
}

#[derive(Clone, Debug, PartialEq, Eq, Hash)]
pub struct Program {
    pub cap: Cap,
    pub async_ctor: bool,
    pub parallelism: usize,
    pub pay: Pay,
    pub salt: u8,
    pub grants: Vec<Grant>,
    pub threads: Vec<Vec<Op>>,
    pub prober: Vec<Op>,
    pub sched: Vec<u8>,
    pub script_bias: u8,
}

impl Case {
    pub fn decode(&self, p: &Profile) -> Program {
        let nt = self.threads.len().clamp(p.threads.0, p.threads.1.max(p.threads.0));
        let cap = p.caps[(self.cfg[0] as usize * p.caps.len()) >> 8];
        let async_ctor = self.cfg[1] & 1 != 0;
        let parallelism = parallelism_of(self.cfg[1]);
        let mut pay = p.pays[(self.cfg[2] as usize * p.pays.len()) >> 8];
        if !p.first_gen {
            // (one PBIG case in four: the race detector keeps a shadow cell per payload byte)
            if pay == Pay::PBIG && self.cfg[5] & 0x88 == 0x88 {
                pay = Pay::PHUGE;
            }
            if pay == Pay::P4 {
                pay = match (self.cfg[5] >> 5) & 3 {
                    0 => Pay::P4,
                    1 => Pay::P3,
                    2 => Pay::P7,
                    _ => {
                        if self.cfg[5] & 0x10 != 0 {
                            Pay::P5
                        } else {
                            Pay::P6
                        }
                    }
                };
            }
        }
        let mut grants = Vec::new();
        for i in 0..nt {
            let byte = self.cfg[3 + (i / 2) % 2];
            let nib = if i % 2 == 0 { byte & 15 } else { byte >> 4 };
            let mut g = Grant {
                send: nib & 3,
                recv: (nib >> 2) & 3,
            };
            if p.mix_flavours {
                if g.send != 0 {
                    g.send = 3;
                }
                if g.recv != 0 {
                    g.recv = 3;
                }
            }
            grants.push(g);
        }
        if grants.iter().all(|g| g.send == 0) {
            grants[0].send = if p.mix_flavours { 3 } else { 1 };
        }
        if grants.iter().all(|g| g.recv == 0) {
            let l = grants.len() - 1;
            grants[l].recv = if p.mix_flavours { 3 } else { 1 };
        }
        let mut threads = Vec::new();
        for i in 0..nt {
            let raw: &[[u8; 4]] = if i < self.threads.len() { &self.threads[i] } else { &[] };
            let ops: Vec<Op> = raw
                .iter()
                .take(p.max_ops)
                .map(|r| Op {
                    k: pick_weighted(&p.weights, r[0]),
                    h: r[1],
                    a: r[2],
                    b: r[3],
                })
                .collect();
            threads.push(ops);
        }
        let prober: Vec<Op> = self
            .prober
            .iter()
            .take(p.prober_ops)
            .map(|r| Op {
                k: pick_weighted(&p.prober_weights, r[0]),
                h: r[1],
                a: r[2],
                b: r[3],
            })
            .collect();
        // A generated backlog: one case in eight on a roomy channel starts with 24 or 70
        // `try_send`s in front of the first sending thread's program (ordinary operations, so
        // every oracle applies): long queues, grown / wrapped buffers, drains of 64+ values.
        let backlog = match self.cfg[1] >> 5 {
            7 => 70usize,
            6 => 24,
            _ => 0,
        };
        let room = match cap {
            Cap::Unbounded => usize::MAX,
            Cap::N(c) => c,
        };
        let tagged_256 = !matches!(pay, Pay::U8 | Pay::U16 | Pay::U32 | Pay::U64 | Pay::U128);
        if p.prefill && backlog > 0 && room >= 17 && tagged_256 {
            if let Some(t) = grants.iter().position(|g| g.send != 0) {
                let n = backlog.min(room);
                let mut ops: Vec<Op> = (0..n).map(|_| Op { k: K::TrySend, h: 0, a: 0, b: 0 }).collect();
                ops.extend(threads[t].iter().copied());
                threads[t] = ops;
            }
        }
        let mut sched = self.sched.clone();
        sched.truncate(p.max_sched);
        Program {
            cap,
            async_ctor,
            parallelism,
            pay,
            salt: self.cfg[5],
            grants,
            threads,
            prober,
            sched,
            script_bias: p.script_bias,
        }
    }

    /// Flat byte encoding (libFuzzer input / replay files).
    pub fn to_bytes(&self) -> Vec<u8> {
        let mut v = Vec::new();
        v.extend_from_slice(&self.cfg);
        v.push(self.threads.len() as u8);
        for t in &self.threads {
            v.push(t.len() as u8);
            for o in t {
                v.extend_from_slice(o);
            }
        }
        v.push(self.prober.len() as u8);
        for o in &self.prober {
            v.extend_from_slice(o);
        }
        v.extend_from_slice(&self.sched);
        v
    }

    /// Total decoder: any byte string is a case (missing bytes read as zero).
    pub fn from_bytes(b: &[u8]) -> Case {
        let mut i = 0usize;
        let mut next = |i: &mut usize| -> u8 {
            let x = if *i < b.len() { b[*i] } else { 0 };
            *i += 1;
            x
        };
        let mut cfg = [0u8; 6];
        for c in cfg.iter_mut() {
            *c = next(&mut i);
        }
        let nt = (next(&mut i) % 8) as usize;
        let mut threads = Vec::new();
        for _ in 0..nt {
            let n = (next(&mut i) % 9) as usize;
            let mut ops = Vec::new();
            for _ in 0..n {
                ops.push([next(&mut i), next(&mut i), next(&mut i), next(&mut i)]);
            }
            threads.push(ops);
        }
        let np = (next(&mut i) % 9) as usize;
        let mut prober = Vec::new();
        for _ in 0..np {
            prober.push([next(&mut i), next(&mut i), next(&mut i), next(&mut i)]);
        }
        let sched = if i < b.len() { b[i..].to_vec() } else { Vec::new() };
        Case {
            cfg,
            threads,
            prober,
            sched,
        }
    }

    pub fn to_hex(&self) -> String {
        self.to_bytes().iter().map(|b| format!("{:02x}", b)).collect()
    }
    pub fn from_hex(s: &str) -> Case {
        let b: Vec<u8> = (0..s.len() / 2)
            .map(|i| u8::from_str_radix(&s[2 * i..2 * i + 2], 16).unwrap_or(0))
            .collect();
        Case::from_bytes(&b)
    }
}

impl Program {
    pub fn to_json(&self) -> Value {
        let ops = |v: &Vec<Op>| -> Vec<String> {
            v.iter()
                .map(|o| format!("{}(h={},a={},b={})", o.k.name(), o.h, o.a, o.b))
                .collect()
        };
        json!({
            "cap": match self.cap { Cap::N(n) => json!(n), Cap::Unbounded => json!("unbounded") },
            "ctor": if self.async_ctor { "async" } else { "sync" },
            "parallelism": self.parallelism,
            "payload": self.pay.name(),
            "grants": self.grants.iter().map(|g| format!("s{}r{}", g.send, g.recv)).collect::<Vec<_>>(),
            "threads": self.threads.iter().map(ops).collect::<Vec<_>>(),
            "prober": ops(&self.prober),
            "sched_len": self.sched.len(),
        })
    }
}
