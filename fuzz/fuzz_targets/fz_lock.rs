#![no_main]
//! Coverage-guided exploration of the lock fuzzer (C17): bytes -> (threads x lock/try_lock ops, schedule).
use libfuzzer_sys::fuzz_target;

fuzz_target!(|data: &[u8]| {
    static ONCE: std::sync::Once = std::sync::Once::new();
    ONCE.call_once(|| std::panic::set_hook(Box::new(|_| {})));
    let case = common::ops::Case::from_bytes(data);
    if case.threads.len() < 2 {
        return;
    }
    let o = conc::lockfuzz::run_case(&case);
    if !o.viols.is_empty() {
        let hex: String = data.iter().map(|b| format!("{:02x}", b)).collect();
        eprintln!("FUZZ-VIOLATION case={}", hex);
        for x in o.viols.iter() {
            eprintln!("  {} [{}]: {}", x.0, x.1, x.2);
        }
        std::process::abort();
    }
});
