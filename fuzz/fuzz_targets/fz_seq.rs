#![no_main]
//! Coverage-guided exploration of single-thread histories against the reference model.
use libfuzzer_sys::fuzz_target;

fuzz_target!(|data: &[u8]| {
    static ONCE: std::sync::Once = std::sync::Once::new();
    ONCE.call_once(|| std::panic::set_hook(Box::new(|_| {})));
    if data.len() < 7 {
        return;
    }
    let hex: String = data.iter().map(|b| format!("{:02x}", b)).collect();
    let case = seq::SCase::from_hex(&hex);
    let o = seq::run_case("C18", &case, &seq::caps_for("thorough"));
    if !o.viols.is_empty() {
        eprintln!("FUZZ-VIOLATION case={}", hex);
        for x in o.viols.iter() {
            eprintln!("  {} [{}]: {}", x.0, x.1, x.2);
        }
        std::process::abort();
    }
});
