#![no_main]
//! Coverage-guided (libFuzzer + ASan) exploration of the concurrent engine: the input
//! bytes are decoded into the same (config, programs, prober, schedule) case the proptest
//! driver uses, heap-owning payloads included, and every oracle of every property runs.
use libfuzzer_sys::fuzz_target;

fuzz_target!(|data: &[u8]| {
    let v = conc::fuzz_eval(data);
    if !v.is_empty() {
        let hex: String = data.iter().map(|b| format!("{:02x}", b)).collect();
        eprintln!("FUZZ-VIOLATION case={}", hex);
        for x in v.iter() {
            eprintln!("  {} [{}]: {}", x.0, x.1, x.2);
        }
        std::process::abort();
    }
});
