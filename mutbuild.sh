#!/bin/bash
# mutbuild.sh <seed-dir> <suffix> : scratch copy of /repo + patch, harness built against it into /tmp/muttarget-<suffix>
set -u
export CARGO_NET_OFFLINE=true
S="$1"; SFX="$2"; SC=/tmp/mutrepo-$SFX; TG=/tmp/muttarget-$SFX
rm -rf "$SC"; mkdir -p "$SC"; rsync -a --exclude target --exclude .git /repo/ "$SC"/
(cd "$SC" && patch -p1 -s < "$S/patch.diff") || { echo "patch failed"; exit 2; }
cd /verif
cargo build --release -p conc --config "paths=[\"$SC\"]" --target-dir "$TG" 2>&1 | grep -E "^error" -A8
cargo build --release -p seq --config "paths=[\"$SC\"]" --target-dir "$TG" 2>&1 | grep -E "^error" -A8
echo "built $TG"
