#!/bin/bash
# seeddetect-own.sh <seed-dir> <prop>... : like seeddetect3.sh but only the named quick checks
# (the owning check first); MUT_SFX separates parallel runs.  Never used by registered checks.
set -u
export CARGO_NET_OFFLINE=true
S="$1"; shift
NAME=$(basename "$S"); SFX=${MUT_SFX:-$NAME}; SC=/tmp/mutrepo-$SFX; TG=/tmp/muttarget-$SFX; OUTB=/tmp/mutout-$SFX
rm -rf "$SC" "$OUTB"; mkdir -p "$SC" "$OUTB"
rsync -a --exclude target --exclude .git --exclude SEEDED /repo/ "$SC"/
(cd "$SC" && patch -p1 -s < "$S/patch.diff") || { echo "$NAME: patch failed"; exit 2; }
cd /verif
cargo build --release -p conc --config "paths=[\"$SC\"]" --target-dir "$TG" > /tmp/mutbuild-$SFX.log 2>&1 || { echo "$NAME: conc build failed"; tail -5 /tmp/mutbuild-$SFX.log; exit 2; }
cargo build --release -p seq --config "paths=[\"$SC\"]" --target-dir "$TG" >> /tmp/mutbuild-$SFX.log 2>&1 || { echo "$NAME: seq build failed"; exit 2; }
CAUGHT=""
for P in "$@"; do
  case "$P" in
    C18) ENGS="seq conc" ;;
    C01|C08|C12|C16) ENGS="conc seq" ;;
    C17) ENGS="lock" ;;
    *) ENGS="conc" ;;
  esac
  for E in $ENGS; do
    case "$E" in
      conc) R=$(VERIF_OUT_DIR=$OUTB VERIF_SEED=${VERIF_SEED:-0} timeout 900 "$TG/release/conc" check $P quick 2>&1); RC=$?
            case "$P" in C06|C07|C13|C14|C15) if [ $RC -eq 0 ]; then R=$(VERIF_OUT_DIR=$OUTB timeout 900 "$TG/release/conc" enum $P quick 2>&1); RC=$?; E=grid; fi ;; esac ;;
      seq) R=$(VERIF_OUT_DIR=$OUTB VERIF_SEED=${VERIF_SEED:-0} timeout 900 "$TG/release/seq" check $P quick 2>&1); RC=$? ;;
      lock) R=$(VERIF_OUT_DIR=$OUTB VERIF_SEED=${VERIF_SEED:-0} timeout 900 "$TG/release/conc" lockcheck C17 quick 2>&1); RC=$? ;;
    esac
    if [ $RC -eq 1 ]; then CAUGHT="$CAUGHT $P($E)"; echo "$NAME $P $E: $(echo "$R" | grep -A1 VIOLATION | tail -1 | cut -c1-220)";
    elif [ $RC -ne 0 ]; then echo "$NAME $P $E: exit $RC $(echo "$R" | tail -1 | cut -c1-160)"; fi
  done
done
echo "SUMMARY $NAME caught_by:${CAUGHT:- NONE}"
[ -n "${KEEP_MUT:-}" ] || rm -rf "$SC" "$OUTB" "$TG"
