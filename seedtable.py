#!/usr/bin/env python3
"""Builds /verif/SENSITIVITY.md from the detection logs (/tmp/detect-*.log, latest result per seed wins)."""
import re, glob, json, os, sys
res = {}   # name -> (caught list, details {prop: line})
order = []
for f in sorted(glob.glob('/tmp/detect-*.log'), key=os.path.getmtime):
    det = {}
    for l in open(f, errors='replace'):
        m = re.match(r'SUMMARY (\S+) caught_by:(.*)', l)
        if m:
            name = m.group(1); caught = m.group(2).split()
            if caught == ['NONE']: caught = []
            res[name] = (caught, det.get(name, {}))
            if name not in order: order.append(name)
            continue
        m = re.match(r'(\S+) (C\d\d) (conc|seq|lock|typegen): +(.*)', l)
        if m:
            det.setdefault(m.group(1), {})[m.group(2) + '(' + m.group(3) + ')'] = m.group(4).strip()
out = ["# Seeded changes and which quick checks catch them", "",
       "Each change was written independently (sub-agent given only the property text and a scratch worktree), confirmed by me (pinned suite still passes, demo fails with / passes without the change) and then run against every quick check (`seeddetect2.sh`, VERIF_SEED=0).  `own` = the owning property's check caught it.", "",
       "| change | what it does (summary by its author) | needs | own | caught by |", "|---|---|---|---|---|"]
miss = []
for name in sorted(res):
    caught, det = res[name]
    d = '/verif/seeded/' + name
    summ = needs = ''
    if os.path.exists(d + '/meta.json'):
        try:
            m = json.load(open(d + '/meta.json')); summ = str(m.get('summary', ''))[:160]; needs = str(m.get('needs', ''))[:140]
        except Exception: pass
    elif os.path.exists('/verif/mutants/' + name + '/what.txt'):
        summ = open('/verif/mutants/' + name + '/what.txt').read().strip()[:160]
    if os.path.exists(d + '/meta.json'):
        try:
            mm = json.load(open(d + '/meta.json'))
            mm['detected_by_quick_checks'] = caught
            mm['detection_run'] = 'seeddetect2.sh: scratch copy of /repo + patch.diff, harness rebuilt against it (cargo paths override), every ./check <id> quick equivalent with VERIF_SEED=0'
            json.dump(mm, open(d + '/meta.json', 'w'), indent=1)
        except Exception: pass
    prop = name.split('-')[0]
    own = any(c.startswith(prop + '(') for c in caught) if prop.startswith('C') else bool(caught)
    if not own: miss.append(name)
    out.append(f"| {name} | {summ.replace('|','/')} | {needs.replace('|','/')} | {'yes' if own else '**no**'} | {' '.join(caught) or '**none**'} |")
out += ["", f"{len(res)} changes; owning check missed: {', '.join(miss) or 'none'}", ""]
open('/verif/SENSITIVITY.md', 'w').write("\n".join(out))
print("\n".join(out[-3:]))
print(len(res), "seeds in table")
