#!/usr/bin/env python3
"""Coverage-guided tier (thorough only): libFuzzer + ASan campaign with a fixed number of runs.
usage: fuzzcheck.py <prop> <target: fz_conc|fz_seq> <runs>
Appends a part to /verif/evidence/<prop>.json.  Exit 0 / 1 (VIOLATION line) / 2 (could not run)."""
import json, os, re, subprocess, sys, time, shutil, glob
prop, target, runs = sys.argv[1], sys.argv[2], int(sys.argv[3])
seed = int(os.environ.get("VERIF_SEED", "0") or 0)
base = os.environ.get("VERIF_OUT_DIR", "/verif")
env = dict(os.environ, CARGO_NET_OFFLINE="true", RUST_BACKTRACE="0", ASAN_OPTIONS="detect_stack_use_after_return=1:detect_leaks=0")
t0 = time.time()
b = subprocess.run(["cargo", "+nightly", "fuzz", "build", target], cwd="/verif/fuzz", env=env, capture_output=True, text=True)
if b.returncode != 0:
    print("fuzz build failed:\n" + b.stderr[-3000:]); sys.exit(2)
corpus = f"{base}/target/fuzz-corpus-{prop}-{target}"
shutil.rmtree(corpus, ignore_errors=True); os.makedirs(corpus)
art = f"{base}/target/fuzz-artifacts-{prop}-{target}/"
shutil.rmtree(art, ignore_errors=True); os.makedirs(art)
# seed corpus: the regression cases (golden programs) of the engine
eng = {"fz_conc": "conc", "fz_seq": "seq", "fz_lock": "lock"}[target]
n = 0
for f in sorted(glob.glob(f"/verif/regressions/{eng}/*.json")):
    try:
        c = json.load(open(f)).get("case", "")
        open(f"{corpus}/seed{n}", "wb").write(bytes.fromhex(c)); n += 1
    except Exception:
        pass
workers = 8
per = max(1, runs // workers)
procs = []
for w in range(workers):
    cmd = ["cargo", "+nightly", "fuzz", "run", target, corpus, "--", f"-runs={per}", f"-seed={seed * 16 + w + 1}",
           "-len_control=0", "-max_len=420", "-timeout=120", f"-artifact_prefix={art}", "-print_final_stats=1"]
    lf = open(f"{art}log{w}.txt", "w")
    procs.append((subprocess.Popen(cmd, cwd="/verif/fuzz", env=env, stdout=lf, stderr=subprocess.STDOUT), lf, f"{art}log{w}.txt"))
outs = []
for p, lf, path in procs:
    p.wait(); lf.close()
    outs.append(open(path, errors="replace").read())
    os.remove(path)
execs = 0; viol = None; cov = 0
for o in outs:
    m = re.search(r"stat::number_of_executed_units:\s*(\d+)", o)
    if m: execs += int(m.group(1))
    for c in re.findall(r"cov: (\d+)", o): cov = max(cov, int(c))
    m = re.search(r"FUZZ-VIOLATION case=([0-9a-f]*)\n((?:  .*\n)*)", o)
    if m and viol is None:
        viol = (m.group(1), m.group(2).strip(), "oracle")
    if viol is None and ("ERROR: AddressSanitizer" in o or "deadly signal" in o or "libFuzzer: timeout" in o):
        files = sorted(glob.glob(art + "*"))
        case = open(files[0], "rb").read().hex() if files else ""
        kind = "timeout (inconclusive)" if "libFuzzer: timeout" in o and "AddressSanitizer" not in o else "memory error reported by AddressSanitizer / fatal signal"
        head = "\n".join([l for l in o.splitlines() if "ERROR" in l or "SUMMARY" in l][:4])
        viol = (case, head, kind)
code = 0
lines = []
violations = 0
if viol:
    case, detail, kind = viol
    if kind.startswith("timeout"):
        lines.append(f"fuzz tier: libFuzzer timeout (inconclusive): {detail[:300]}")
        code = 2
    else:
        # does it belong to this property?  Ask the engine's strict replay.
        os.makedirs(f"{base}/replays", exist_ok=True)
        import hashlib
        rp = f"{base}/replays/{prop}-fuzz-{hashlib.sha1(case.encode()).hexdigest()[:16]}.json"
        json.dump({"property": prop, "engine": eng, "case": case, "profile": "ALL" if eng == "conc" else None, "tier": "quick" if eng == "conc" else "thorough", "predicate": "fuzz:" + kind, "from": f"libFuzzer {target}", "violations": [{"predicate": kind, "signature": f"{prop}/fuzz", "detail": detail[:2000]}]}, open(rp, "w"), indent=1)
        mine = True
        if kind == "oracle":
            exe = f"/verif/target/release/{'conc' if eng == 'lock' else eng}"
            r = subprocess.run([exe, "lockreplay" if eng == "lock" else "replay", prop, rp], capture_output=True, text=True, env=env)
            mine = r.returncode == 1
        if mine:
            print(f"VIOLATION property={prop} replay={rp}")
            print("  " + detail[:600].replace("\n", "\n  "))
            code = 1; violations = 1
        else:
            lines.append(f"fuzz tier: found a violation of another property's predicate (not reported under {prop}): {rp}")
samples = []
for f in sorted(glob.glob(corpus + "/*"))[:3]:
    samples.append({"corpus_entry_hex": open(f, "rb").read().hex()[:400]})
ev = {"property_id": prop, "tier": "thorough", "seed": seed, "level": "exploration",
      "coverage": {"engine": f"fuzz-{target}", "evaluations": execs, "distinct_nontrivial": len(glob.glob(corpus + "/*")),
                   "rule": f"coverage-guided libFuzzer + AddressSanitizer campaign on {target}: input bytes are decoded into the same case type as the proptest driver (heap-owning payloads included), every oracle runs in-target; fixed work -runs={per} x {workers} processes, -seed from VERIF_SEED, fresh corpus seeded with the regression cases; distinct_nontrivial = corpus entries kept by the fuzzer because they reached new coverage (edge coverage {cov})",
                   "samples": samples or [{"note": "empty corpus"}], "inconclusive": 0},
      "assumptions": ["ASan build with debug assertions; the same interpreter and oracles as the proptest tier"],
      "wall_s": time.time() - t0, "violations": violations}
# merge as a part
path = f"{base}/evidence/{prop}.json"
try:
    old = json.load(open(path))
    oc = old["coverage"]; parts = oc.get("parts") or [dict(oc)]
    parts.append(ev["coverage"])
    for p in parts: p.pop("parts", None)
    old["coverage"] = {"evaluations": sum(p.get("evaluations", 0) for p in parts),
                       "distinct_nontrivial": sum(p.get("distinct_nontrivial", 0) for p in parts),
                       "rule": " || ".join(f"[{p.get('engine','?')}] {p.get('rule','')}" for p in parts),
                       "samples": [s for p in parts for s in (p.get("samples") or [])[:2]],
                       "inconclusive": sum(p.get("inconclusive", 0) for p in parts), "parts": parts}
    old["wall_s"] = old.get("wall_s", 0) + ev["wall_s"]; old["violations"] = old.get("violations", 0) + violations
    json.dump(old, open(path, "w"), indent=1)
except Exception:
    os.makedirs(f"{base}/evidence", exist_ok=True); json.dump(ev, open(path, "w"), indent=1)
for l in lines: print(l)
print(f"{prop} thorough engine=fuzz({target}): {execs} executions, corpus {len(glob.glob(corpus + '/*'))}, edge coverage {cov}, {time.time()-t0:.1f}s, exit {code}")
shutil.rmtree(corpus, ignore_errors=True); shutil.rmtree(art, ignore_errors=True)
sys.exit(code)
