#!/usr/bin/env python3
import json,sys
j=json.load(open(sys.argv[1]))
for v in j.get('violations',[]): print('VIOL',v['predicate'],'|',v['signature'],'|',v['detail'])
s=j.get('sample',{})
print(json.dumps(s.get('program')))
print('\n'.join(s.get('history',[])))
print(s.get('end'), 'case', j.get('case'))
