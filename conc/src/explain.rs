//! C03: is the vector of results observed in one concurrent execution explainable by an
//! ideal channel that executes every operation atomically (a blocking operation as an
//! atomic "register" step plus an atomic "complete" step), for SOME interleaving that
//! respects each thread's program order?  Memoised depth-first search over the
//! interleavings of model steps; real-time order is deliberately not demanded.

use crate::interp::{Obs, OpRec, Res, E};
use common::model::{self as m, Chan, Comp, RecvOut, SendOut};
use common::ops::*;
use std::collections::HashSet;
use std::hash::{Hash, Hasher};

#[derive(Clone, Copy, PartialEq, Eq, Hash, Debug)]
enum Sub {
    Idle,
    Registered,
    Obs(u8),
}

#[derive(Clone, PartialEq, Eq, Hash)]
struct S {
    m: Chan,
    pc: Vec<u8>,
    sub: Vec<Sub>,
    /// stream instance that has reported its end, per thread
    ended_stream: Vec<u32>,
}

pub enum Verdict {
    Explained(usize),
    NoExplanation(String),
    Inconclusive(String),
}

fn merr(e: &E) -> Option<m::Err> {
    Some(match e {
        E::Closed => m::Err::Closed,
        E::SendClosed => m::Err::SendClosed,
        E::ReceiveClosed => m::Err::ReceiveClosed,
        E::Timeout => m::Err::Timeout,
        E::CloseErr => return None,
    })
}

pub struct Search<'a> {
    ops: &'a [OpRec],
    lists: Vec<Vec<usize>>,
    rt_busy: &'a dyn Fn(usize) -> bool,
    seen: HashSet<u64>,
    budget: usize,
    deepest: usize,
    deepest_desc: String,
}

fn hash_state(s: &S) -> u64 {
    let mut h = std::collections::hash_map::DefaultHasher::new();
    s.hash(&mut h);
    h.finish()
}

impl<'a> Search<'a> {
    fn owner(t: usize) -> u32 {
        t as u32 + 1
    }

    fn done(&self, s: &S) -> bool {
        (0..self.lists.len()).all(|t| s.pc[t] as usize == self.lists[t].len() && s.sub[t] == Sub::Idle)
    }

    fn progress(&self, s: &S) -> usize {
        s.pc.iter().map(|x| *x as usize).sum()
    }

    /// successors of `s` obtained by letting thread `t` take one atomic step
    fn succ(&self, s: &S, t: usize) -> Vec<S> {
        let mut out = Vec::new();
        let pc = s.pc[t] as usize;
        if pc >= self.lists[t].len() {
            return out;
        }
        let gi = self.lists[t][pc];
        let o = &self.ops[gi];
        let own = Self::owner(t);
        let adv = |mut n: S| -> S {
            n.pc[t] += 1;
            n.sub[t] = Sub::Idle;
            n.m.woken.clear();
            n.m.destroyed.clear();
            n
        };
        let keep = |mut n: S, sub: Sub| -> S {
            n.sub[t] = sub;
            n.m.woken.clear();
            n.m.destroyed.clear();
            n
        };
        let id = o.sent.unwrap_or(u32::MAX);
        match s.sub[t] {
            Sub::Registered => {
                // complete
                if s.m.done.contains_key(&own) {
                    let mut n = s.clone();
                    let c = n.m.collect(own).unwrap();
                    let ok = match (&o.res, c, o.k.is_send()) {
                        (Res::Dropped(_), _, _) => true,
                        (Res::Unit, Comp::Sent, true) => true,
                        (Res::Err(E::Closed), Comp::Terminated, _) => true,
                        (Res::End, Comp::Terminated, false) => true,
                        (Res::Val(v), Comp::Got(x), false) => *v == x,
                        _ => false,
                    };
                    if ok {
                        let mut n = adv(n);
                        if o.res == Res::End && o.k == K::StreamNext {
                            n.ended_stream[t] = o.stream_id;
                        }
                        out.push(n);
                    }
                } else {
                    // still registered: timeout (timed ops) or cancellation (dropped futures)
                    let timed_out = o.k.is_timed() && o.res == Res::Err(E::Timeout);
                    let dropped = matches!(o.res, Res::Dropped(_));
                    if timed_out || dropped {
                        let mut n = s.clone();
                        if n.m.cancel(own).is_some() {
                            out.push(adv(n));
                        }
                    }
                }
            }
            Sub::Obs(i) => {
                // one observer read at a time (each takes the lock separately)
                let Res::Obs(ob) = &o.res else { return out };
                let mo = s.m.observe();
                let send_side = o.side_send.unwrap_or(true);
                let ok = match i {
                    0 => ob.len == mo.len,
                    1 => ob.is_empty == mo.is_empty,
                    2 => ob.is_full == mo.is_full,
                    3 => ob.capacity == mo.capacity,
                    4 => ob.is_bounded == mo.is_bounded,
                    5 => ob.senders == mo.senders,
                    6 => ob.receivers == mo.receivers,
                    7 => ob.is_closed == mo.is_closed,
                    8 => ob.is_disconnected == if send_side { mo.s_disconnected } else { mo.r_disconnected },
                    _ => match ob.is_terminated {
                        Some(x) => x == mo.is_terminated,
                        None => true,
                    },
                };
                if ok {
                    let n = s.clone();
                    if i >= 9 {
                        out.push(adv(n));
                    } else {
                        out.push(keep(n, Sub::Obs(i + 1)));
                    }
                }
            }
            Sub::Idle => {
                if (self.rt_busy)(gi) {
                    // a realtime op that met a busy lock did nothing
                    out.push(adv(s.clone()));
                    return out;
                }
                match o.k {
                    K::Send | K::SendTimeout | K::SendOptTimeout | K::AsyncSend | K::TrySend | K::TrySendOpt | K::TrySendRt | K::TrySendOptRt => {
                        if o.res == Res::Dropped(0) || matches!(o.res, Res::Panic(_)) {
                            out.push(adv(s.clone()));
                            return out;
                        }
                        let mut n = s.clone();
                        match n.m.send(id) {
                            SendOut::Ok => {
                                if matches!(o.res, Res::Unit | Res::Bool(true)) {
                                    out.push(adv(n));
                                }
                            }
                            SendOut::Err(e) => {
                                if let Res::Err(oe) = &o.res {
                                    if merr(oe) == Some(e) {
                                        out.push(adv(n));
                                    }
                                }
                            }
                            SendOut::Full => {
                                if o.k.is_try() {
                                    if o.res == Res::Bool(false) {
                                        out.push(adv(n));
                                    }
                                } else {
                                    n.m.register_send(id, own);
                                    out.push(keep(n, Sub::Registered));
                                }
                            }
                        }
                    }
                    K::Recv | K::RecvTimeout | K::IterNext | K::AsyncRecv | K::StreamNext | K::TryRecv | K::TryRecvRt => {
                        if o.res == Res::Dropped(0) || matches!(o.res, Res::Panic(_)) {
                            out.push(adv(s.clone()));
                            return out;
                        }
                        if o.k == K::StreamNext && s.ended_stream[t] == o.stream_id && o.stream_id != 0 {
                            // an ended stream keeps reporting the end without touching the channel
                            if o.res == Res::End {
                                out.push(adv(s.clone()));
                            }
                            return out;
                        }
                        let end_like = |r: &Res| matches!(r, Res::End);
                        let mut n = s.clone();
                        match n.m.recv() {
                            RecvOut::Val(x) => {
                                if o.res == Res::Val(x) {
                                    out.push(adv(n));
                                }
                            }
                            RecvOut::Err(e) => {
                                let matches_err = match &o.res {
                                    Res::Err(oe) => merr(oe) == Some(e),
                                    r if end_like(r) => matches!(o.k, K::IterNext | K::StreamNext),
                                    _ => false,
                                };
                                let early_timeout = o.k == K::RecvTimeout
                                    && e == m::Err::SendClosed
                                    && o.res == Res::Err(E::Timeout);
                                if matches_err || early_timeout {
                                    let mut n = adv(n);
                                    if o.res == Res::End && o.k == K::StreamNext {
                                        n.ended_stream[t] = o.stream_id;
                                    }
                                    out.push(n);
                                }
                            }
                            RecvOut::Empty => {
                                if o.k.is_try() {
                                    if o.res == Res::NoneV {
                                        out.push(adv(n));
                                    }
                                } else {
                                    n.m.register_recv(own);
                                    out.push(keep(n, Sub::Registered));
                                }
                            }
                        }
                    }
                    K::Drain => {
                        let mut n = s.clone();
                        match (n.m.drain(), &o.res) {
                            (Ok(v), Res::Count(c, ids)) => {
                                if *c == ids.len() && v == *ids {
                                    out.push(adv(n));
                                }
                            }
                            (Err(_), Res::Err(E::Closed)) => out.push(adv(n)),
                            _ => {}
                        }
                    }
                    K::CloneH => {
                        let mut n = s.clone();
                        n.m.clone_side(o.side_send.unwrap_or(true));
                        out.push(adv(n));
                    }
                    K::DropH => {
                        let mut n = s.clone();
                        n.m.drop_side(o.side_send.unwrap_or(true));
                        out.push(adv(n));
                    }
                    K::Close => {
                        let mut n = s.clone();
                        let ok = n.m.close();
                        if (ok && o.res == Res::Unit) || (!ok && o.res == Res::Err(E::CloseErr)) {
                            out.push(adv(n));
                        }
                    }
                    K::Observe => {
                        if matches!(o.res, Res::Obs(_)) {
                            out.push(keep(s.clone(), Sub::Obs(0)));
                        } else {
                            out.push(adv(s.clone()));
                        }
                    }
                    _ => out.push(adv(s.clone())),
                }
            }
        }
        out
    }

    fn dfs(&mut self, s: S) -> Option<bool> {
        if self.done(&s) {
            return Some(true);
        }
        let h = hash_state(&s);
        if !self.seen.insert(h) {
            return Some(false);
        }
        if self.seen.len() > self.budget {
            return None;
        }
        let p = self.progress(&s);
        if p > self.deepest {
            self.deepest = p;
            let mut d = Vec::new();
            for t in 0..self.lists.len() {
                let pc = s.pc[t] as usize;
                if pc < self.lists[t].len() {
                    let o = &self.ops[self.lists[t][pc]];
                    d.push(format!("t{}: {} -> {:?} ({:?})", t, o.k.name(), o.res, s.sub[t]));
                }
            }
            self.deepest_desc = format!(
                "model state: queue {:?}, waiting {:?}, senders {}, receivers {}; next unexplained: {}",
                s.m.queue,
                s.m.waiters,
                s.m.senders,
                s.m.receivers,
                d.join(" | ")
            );
        }
        for t in 0..self.lists.len() {
            for n in self.succ(&s, t) {
                match self.dfs(n) {
                    Some(true) => return Some(true),
                    None => return None,
                    Some(false) => {}
                }
            }
        }
        Some(false)
    }
}

#[allow(clippy::too_many_arguments)]
pub fn explain(
    ops: &[OpRec],
    nthreads: usize,
    cap: Option<usize>,
    live_send: u32,
    live_recv: u32,
    rt_busy: &dyn Fn(usize) -> bool,
    rescue_close: Option<(usize, Res)>,
    synthetic: &mut Vec<OpRec>,
) -> Verdict {
    // per-thread op lists in program order (ops are recorded in invocation order)
    let mut all: Vec<OpRec> = ops.to_vec();
    if let Some((prober_t, res)) = rescue_close {
        // the rescue close() issued by the prober at the stuck state
        let mut o = ops[0].clone();
        o.t = prober_t as u8;
        o.k = K::Close;
        o.res = res;
        o.sent = None;
        o.implicit = true;
        all.push(o);
    }
    *synthetic = all;
    let all: &[OpRec] = synthetic;
    let mut lists: Vec<Vec<usize>> = vec![Vec::new(); nthreads];
    for (i, o) in all.iter().enumerate() {
        if matches!(o.res, Res::Skip) || matches!(o.k, K::Yield | K::Skip | K::StreamDrop | K::ConvertH) {
            continue;
        }
        if matches!(o.res, Res::Stuck) {
            return Verdict::Inconclusive("an operation never returned".into());
        }
        if (o.t as usize) < nthreads {
            lists[o.t as usize].push(i);
        }
    }
    if lists.iter().any(|l| l.len() > 250) {
        return Verdict::Inconclusive("program too long".into());
    }
    let s0 = S {
        m: Chan::new(cap, live_send, live_recv),
        pc: vec![0; nthreads],
        sub: vec![Sub::Idle; nthreads],
        ended_stream: vec![0; nthreads],
    };
    let mut se = Search {
        ops: all,
        lists,
        rt_busy,
        seen: HashSet::new(),
        budget: 300_000,
        deepest: 0,
        deepest_desc: String::new(),
    };
    match se.dfs(s0) {
        Some(true) => Verdict::Explained(se.seen.len()),
        Some(false) => Verdict::NoExplanation(format!(
            "no interleaving of atomic channel steps reproduces the observed results ({} states searched); furthest: {}",
            se.seen.len(),
            se.deepest_desc
        )),
        None => Verdict::Inconclusive(format!("search budget exhausted after {} states", se.seen.len())),
    }
}

#[allow(dead_code)]
fn _unused(_: &Obs) {}
