//! Oracles over the recorded history of one execution.  Every predicate is named; a
//! property check reports only the predicates in its own set (props.rs).

use crate::interp::{Exec, OpRec, Res, RunOut, E};
use crate::payload::{Ledger, PayRec};
use crate::rt::{self, Note};
use common::ops::*;
use kanal::verif::notes as N;
use std::collections::{BTreeMap, HashMap};

#[derive(Clone, Debug)]
pub struct Viol {
    pub pred: &'static str,
    pub op: Option<u32>,
    pub detail: String,
}

/// Classification counters of one execution (the measured distribution).
#[derive(Clone, Debug, Default)]
pub struct Feat {
    pub c: BTreeMap<&'static str, u32>,
}
impl Feat {
    pub fn add(&mut self, k: &'static str, n: u32) {
        if n > 0 {
            *self.c.entry(k).or_insert(0) += n;
        }
    }
    /// dynamic key (interned; the key space is small and fixed)
    pub fn add_dyn(&mut self, k: String, n: u32) {
        use std::collections::HashMap;
        use std::sync::Mutex;
        static INTERN: Mutex<Option<HashMap<String, &'static str>>> = Mutex::new(None);
        let mut g = INTERN.lock().unwrap();
        let m = g.get_or_insert_with(HashMap::new);
        let key: &'static str = match m.get(&k) {
            Some(x) => x,
            None => {
                let l: &'static str = Box::leak(k.clone().into_boxed_str());
                m.insert(k, l);
                l
            }
        };
        drop(g);
        self.add(key, n);
    }
    pub fn get(&self, k: &str) -> u32 {
        self.c.get(k).copied().unwrap_or(0)
    }
}

const INF: u64 = u64::MAX;

fn retx(o: &OpRec) -> u64 {
    if o.ret == 0 {
        INF
    } else {
        o.ret
    }
}

#[derive(Clone, Copy, PartialEq, Eq, Debug)]
enum SendOut {
    Success,
    Failure,
    Cancelled,
    Stuck,
    Other,
}

fn send_out(o: &OpRec) -> SendOut {
    match &o.res {
        Res::Unit | Res::Bool(true) => SendOut::Success,
        Res::Err(_) | Res::Bool(false) => SendOut::Failure,
        Res::Dropped(_) => SendOut::Cancelled,
        Res::Stuck => SendOut::Stuck,
        _ => SendOut::Other,
    }
}

/// ids obtained by a receive-like op, in order
fn got(o: &OpRec) -> Vec<u32> {
    match &o.res {
        Res::Val(id) => vec![*id],
        Res::Count(_, ids) => ids.clone(),
        _ => vec![],
    }
}

#[derive(Default, Clone)]
struct OpNotes {
    reg_send: Option<u64>,
    reg_recv: Option<u64>,
    parked: u32,
    try_lock_failed: u32,
    sig: usize,
}

pub struct Analysis<'a> {
    pub prog: &'a Program,
    pub ops: &'a [OpRec],
    pub ex: &'a Exec,
    pub led: &'a Ledger,
    pub notes: &'a [Note],
    on: Vec<OpNotes>,
    pub prober_t: u8,
    pub complete: bool,
}

impl<'a> Analysis<'a> {
    fn op_of(&self, vid: u8, stamp: u64) -> Option<usize> {
        self.ops
            .iter()
            .position(|o| o.t == vid && o.inv <= stamp && stamp <= retx(o))
    }

    fn is_sentinel(&self, p: &PayRec) -> bool {
        (p.by_op as usize) < self.ops.len() && self.ops[p.by_op as usize].k == K::Drain
    }

    /// (recv ops, kanal drops, harness drops)
    fn fate(&self, p: &PayRec) -> (usize, usize) {
        (
            p.recv_by.len(),
            p.drops.iter().filter(|d| !d.harness).count(),
        )
    }

    /// was the value of this send-like op delivered into the channel / to a receiver?
    fn delivered(&self, id: u32) -> bool {
        let p = &self.led.pays[id as usize];
        let o = &self.ops[p.by_op as usize];
        match send_out(o) {
            SendOut::Success => true,
            SendOut::Cancelled => {
                !p.recv_by.is_empty()
                    || p.drops
                        .iter()
                        .any(|d| !d.harness && d.in_op != p.by_op)
            }
            _ => false,
        }
    }

    /// latest instant at which the value can have left the channel
    fn taken_time(&self, id: u32) -> u64 {
        let p = &self.led.pays[id as usize];
        let mut t = INF;
        for r in &p.recv_by {
            t = t.min(retx(&self.ops[*r as usize]));
        }
        for d in &p.drops {
            if !d.harness {
                t = t.min(d.stamp);
            }
        }
        t
    }

    /// earliest instant at which the value can have left the channel: the invocation of
    /// the receive operation that obtained it, or of the (later dropped) receive future
    /// that consumed it, or the instant the library destroyed it
    fn take_begin(&self, id: u32) -> u64 {
        let p = &self.led.pays[id as usize];
        let mut t = INF;
        for r in &p.recv_by {
            t = t.min(self.ops[*r as usize].inv);
        }
        for d in &p.drops {
            if !d.harness {
                let by_recv_future = (d.in_op as usize) < self.ops.len()
                    && self.ops[d.in_op as usize].k.is_recv()
                    && d.in_op != p.by_op;
                if by_recv_future {
                    t = t.min(self.ops[d.in_op as usize].inv);
                } else {
                    t = t.min(d.stamp);
                }
            }
        }
        t
    }

    /// can the buffer length be derived from the ledger?  Not when a receive future
    /// that had been polled was dropped and the payload has no destructor to observe
    /// (it may have consumed one value invisibly).
    fn len_known(&self) -> bool {
        if self.prog.pay_is_zst() {
            return false;
        }
        if self.prog.pay_droppable() {
            return true;
        }
        // (a dropped send future may equally have been delivered invisibly)
        !self.ops.iter().any(|o| matches!(o.res, Res::Dropped(n) if n >= 1))
    }

    /// a realtime operation that met a busy lock may always report "not done"
    fn rt_busy(&self, i: usize) -> bool {
        self.ops[i].k.is_rt()
            && self.on[i].try_lock_failed > 0
            && matches!(self.ops[i].res, Res::Bool(false) | Res::NoneV)
    }

    /// Expected channel state at a quiescent instant `t`.
    fn quiescent(&self, t: u64) -> Quiescent {
        let mut q = Quiescent::default();
        q.live_s = self.ex.live_send;
        q.live_r = self.ex.live_recv;
        for o in self.ops {
            if retx(o) < t {
                match (o.k, &o.res, o.side_send) {
                    (K::CloneH, Res::Done, Some(true)) => q.live_s += 1,
                    (K::CloneH, Res::Done, Some(false)) => q.live_r += 1,
                    (K::DropH, Res::Done, Some(true)) => q.live_s -= 1,
                    (K::DropH, Res::Done, Some(false)) => q.live_r -= 1,
                    (K::Close, Res::Unit, _) => q.closed = true,
                    _ => {}
                }
            }
        }
        if let Some(rs) = self.ex.rescue_stamp {
            if rs < t && self.ex.rescue_close == Some(Res::Unit) {
                q.closed = true;
            }
        }
        for (i, o) in self.ops.iter().enumerate() {
            if o.t != self.prober_t && o.inv < t && retx(o) > t {
                if o.k.is_send() {
                    q.blocked_send.push(i);
                } else if o.k.is_recv() {
                    q.blocked_recv.push(i);
                }
            }
        }
        if !self.prog.pay_is_zst() {
            for (id, p) in self.led.pays.iter().enumerate() {
                if self.is_sentinel(p) || !p.created {
                    continue;
                }
                let o = &self.ops[p.by_op as usize];
                if self.delivered(id as u32) && retx(o) < t && self.taken_time(id as u32) > t {
                    q.len += 1;
                }
            }
        }
        q
    }
}

#[derive(Default, Debug, Clone)]
pub struct Quiescent {
    pub closed: bool,
    pub live_s: i32,
    pub live_r: i32,
    pub len: usize,
    pub blocked_send: Vec<usize>,
    pub blocked_recv: Vec<usize>,
}

pub trait ProgExt {
    fn pay_is_zst(&self) -> bool;
    fn pay_droppable(&self) -> bool;
    fn cap_n(&self) -> usize;
}
impl ProgExt for Program {
    fn pay_is_zst(&self) -> bool {
        matches!(self.pay, Pay::Z0 | Pay::ZA)
    }
    fn pay_droppable(&self) -> bool {
        !matches!(self.pay, Pay::U8 | Pay::U16 | Pay::U32 | Pay::U64 | Pay::U128)
    }
    fn cap_n(&self) -> usize {
        match self.cap {
            Cap::N(n) => n,
            Cap::Unbounded => usize::MAX,
        }
    }
}

pub fn evaluate(prog: &Program, out: &RunOut) -> (Vec<Viol>, Feat) {
    let ops = &out.exec.ops;
    let mut a = Analysis {
        prog,
        ops,
        ex: &out.exec,
        led: &out.ledger,
        notes: &out.outcome.notes,
        on: vec![OpNotes::default(); ops.len()],
        prober_t: prog.threads.len() as u8,
        complete: out.outcome.end == rt::End::Complete,
    };
    let mut v: Vec<Viol> = Vec::new();
    let mut f = Feat::default();

    // ---- notes -> ops -------------------------------------------------------
    let mut sig_owner: HashMap<usize, usize> = HashMap::new(); // sig addr -> registering op
    let mut handoffs: Vec<(usize, Option<usize>, u32, u64)> = Vec::new(); // (peer op, waiter op, kind, stamp)
    for n in a.notes.iter() {
        let op = a.op_of(n.vid, n.stamp);
        match n.kind {
            N::REGISTER_SEND | N::REGISTER_RECV => {
                if let Some(i) = op {
                    if n.kind == N::REGISTER_SEND {
                        // the FIRST registration counts ("already pending inside the channel")
                        if a.on[i].reg_send.is_none() {
                            a.on[i].reg_send = Some(n.stamp);
                        } else {
                            f.add("re_registered_sender", 1);
                        }
                        f.add(if ops[i].k.is_async() { "reg_send_async" } else { "reg_send_sync" }, 1);
                    } else {
                        if a.on[i].reg_recv.is_none() {
                            a.on[i].reg_recv = Some(n.stamp);
                        }
                        f.add(if ops[i].k.is_async() { "reg_recv_async" } else { "reg_recv_sync" }, 1);
                    }
                    a.on[i].sig = n.arg;
                    sig_owner.insert(n.arg, i);
                }
            }
            N::HANDOFF_WRITE | N::HANDOFF_READ | N::TERMINATE => {
                let waiter = sig_owner.get(&n.arg).copied();
                if let Some(i) = op {
                    handoffs.push((i, waiter, n.kind, n.stamp));
                }
                match n.kind {
                    N::HANDOFF_WRITE => f.add("handoff_write", 1),
                    N::HANDOFF_READ => f.add("handoff_read", 1),
                    _ => f.add("terminate", 1),
                }
                if let (Some(_), Some(w)) = (op, waiter) {
                    if n.kind != N::TERMINATE {
                        // C04 coverage matrix: payload class x transfer path x waiter kind
                        let path = if n.kind == N::HANDOFF_WRITE { "into_blocked_receiver" } else { "out_of_blocked_sender" };
                        let wk = if ops[w].k.is_async() { "async" } else if ops[w].k.is_timed() { "timed" } else { "sync" };
                        f.add_dyn(format!("matrix/{}/{}/{}", prog.pay.name(), path, wk), 1);
                    }
                }
                if let (Some(i), Some(w)) = (op, waiter) {
                    let peer_async = ops[i].k.is_async();
                    let waiter_async = ops[w].k.is_async();
                    if n.kind != N::TERMINATE {
                        match (waiter_async, peer_async) {
                            (false, true) => f.add("sync_waiter_async_peer", 1),
                            (true, false) => f.add("async_waiter_sync_peer", 1),
                            (true, true) => f.add("async_waiter_async_peer", 1),
                            (false, false) => f.add("sync_waiter_sync_peer", 1),
                        }
                        if ops[w].k.is_timed() {
                            f.add("handoff_to_timed_waiter", 1);
                        }
                    } else if waiter_async {
                        f.add("terminate_async_waiter", 1);
                    } else {
                        f.add("terminate_sync_waiter", 1);
                    }
                }
            }
            N::PARKED => {
                if let Some(i) = op {
                    a.on[i].parked += 1;
                }
                f.add("parked", 1);
            }
            N::WAKE_SYNC_UNPARK => f.add("wake_unpark", 1),
            N::WAKE_ASYNC => f.add("wake_async", 1),
            N::TRY_LOCK_FAILED => {
                if let Some(i) = op {
                    a.on[i].try_lock_failed += 1;
                }
                f.add("try_lock_failed", 1);
            }
            _ => {}
        }
    }
    f.add("parks_rt", out.outcome.parks);
    f.add("spurious_unparks", out.outcome.spurious_unparks);
    f.add("unpin_object_moved_between_polls", out.outcome.moved_unpin);
    f.add("stream_wait_with_fresh_waker", out.outcome.stream_handed_over);
    f.add("cross_thread_accesses", out.outcome.cross_checked);
    f.add("spin_end_segments", out.outcome.spin_end_segments);
    if out.outcome.switches > 8 {
        f.add("preemptive", 1);
    }

    // refill: a HANDOFF_READ inside a receive op that returned a different value
    for (peer, waiter, kind, _) in handoffs.iter() {
        if *kind == N::HANDOFF_READ {
            if let Some(w) = waiter {
                let wid = ops[*w].sent;
                let g = got(&ops[*peer]);
                if ops[*peer].k != K::Drain && wid.is_some() && !g.is_empty() && Some(g[0]) != wid {
                    f.add("refill", 1);
                }
                if ops[*peer].k == K::Drain {
                    f.add("drain_took_blocked_sender", 1);
                }
            }
        }
    }

    // ---- panics ---------------------------------------------------------------
    for (i, o) in ops.iter().enumerate() {
        if let Res::Panic(m) = &o.res {
            v.push(Viol {
                pred: "panic",
                op: Some(i as u32),
                detail: format!("{} panicked: {}", o.k.name(), m),
            });
        }
        if o.panicked_after_done == Some(false) {
            v.push(Viol {
                pred: "no_panic_after_done",
                op: Some(i as u32),
                detail: "completed future polled again did not panic".into(),
            });
        }
        if o.panicked_after_done == Some(true) {
            f.add("poll_after_done_panicked", 1);
        }
    }
    for (t, m) in out.outcome.panics.iter() {
        v.push(Viol {
            pred: "panic",
            op: None,
            detail: format!("thread {} panicked outside an op: {}", t, m),
        });
    }

    // ---- memory ---------------------------------------------------------------
    for m in out.outcome.mem.iter() {
        v.push(Viol {
            pred: match m.kind {
                "race" => "race",
                "wait_in_cs" => "waited_inside_critical_section",
                _ => "uaf",
            },
            op: a.op_of(m.vid, m.stamp).map(|x| x as u32),
            detail: m.detail.clone(),
        });
    }

    for d in out.exec.waker_misuse.iter() {
        v.push(Viol {
            pred: "dead_waker_used",
            op: None,
            detail: d.clone(),
        });
    }

    // ---- ledger ---------------------------------------------------------------
    ledger_preds(&a, &mut v, &mut f);

    // ---- order ----------------------------------------------------------------
    fifo_preds(&a, &mut v, &mut f);

    // ---- capacity -------------------------------------------------------------
    capacity_preds(&a, &mut v, &mut f);

    // ---- non-blocking ---------------------------------------------------------
    for (i, o) in ops.iter().enumerate() {
        if o.k.is_try() && o.t != a.prober_t || (o.t == a.prober_t && o.k.is_try()) {
            let n = &a.on[i];
            if n.reg_send.is_some() || n.reg_recv.is_some() || n.parked > 0 {
                v.push(Viol {
                    pred: "try_waited",
                    op: Some(i as u32),
                    detail: format!("{} registered as a waiter or parked", o.k.name()),
                });
            }
            if let Some(p) = o.alone_points {
                f.add("rt_alone", 1);
                if n.try_lock_failed > 0 {
                    f.add("rt_alone_lock_held", 1);
                }
                if p > 64 {
                    v.push(Viol {
                        pred: "realtime_unbounded",
                        op: Some(i as u32),
                        detail: format!(
                            "{} needed {} scheduling points while every other thread was suspended",
                            o.k.name(),
                            p
                        ),
                    });
                }
            }
            if o.k.is_rt() && n.try_lock_failed > 0 {
                f.add("rt_lock_busy", 1);
                let done = matches!(o.res, Res::Bool(true) | Res::Val(_));
                if done {
                    v.push(Viol {
                        pred: "realtime_done_without_lock",
                        op: Some(i as u32),
                        detail: "realtime op reported success although try_lock failed".into(),
                    });
                }
            }
        }
    }

    // ---- timed ----------------------------------------------------------------
    for (i, o) in ops.iter().enumerate() {
        if o.k.is_timed() {
            if o.res == Res::Err(E::Timeout) {
                f.add("timeout_result", 1);
                let n = &a.on[i];
                if n.reg_send.is_some() || n.reg_recv.is_some() {
                    f.add("timeout_while_registered", 1);
                }
                if o.vt_ret < o.vt_inv + o.dur_ticks * rt::TICK {
                    v.push(Viol {
                        pred: "timeout_early",
                        op: Some(i as u32),
                        detail: format!(
                            "{} returned Timeout at virtual time {} ns, invoked at {} ns with {} tick(s)",
                            o.k.name(),
                            o.vt_ret,
                            o.vt_inv,
                            o.dur_ticks
                        ),
                    });
                }
            }
            let n = &a.on[i];
            if (n.reg_send.is_some() || n.reg_recv.is_some())
                && matches!(o.res, Res::Unit | Res::Val(_))
                && o.vt_ret > o.vt_inv + o.dur_ticks * rt::TICK
            {
                f.add("timed_success_after_deadline", 1);
            }
        }
    }

    // ---- progress -------------------------------------------------------------
    progress_preds(&a, out, &mut v, &mut f);

    // ---- close / disconnect / counts -----------------------------------------
    close_preds(&a, &mut v, &mut f);
    disconnect_preds(&a, &mut v, &mut f);
    count_preds(&a, &mut v, &mut f);

    // ---- quiescent prober ------------------------------------------------------
    quiescent_preds(&a, &mut v, &mut f);

    // ---- polling contract -----------------------------------------------------
    polling_preds(&a, &mut v, &mut f);

    // ---- drain ------------------------------------------------------------------
    drain_preds(&a, &mut v, &mut f);

    // ---- atomic-channel explainability (C03 only: the search is not free) ------------
    if EXPLAIN.with(|e| e.get()) {
        explain_pred(&a, out, &mut v, &mut f);
    }

    // how many operations sat in the waiting list at the same time (generator envelope)
    {
        let mut ev: Vec<(u64, i32)> = Vec::new();
        for (i, o) in ops.iter().enumerate() {
            if let Some(r) = a.on[i].reg_send.or(a.on[i].reg_recv) {
                ev.push((r, 1));
                ev.push((if o.ret == 0 { u64::MAX } else { o.ret }, -1));
            }
        }
        ev.sort();
        let (mut cur, mut mx) = (0i32, 0i32);
        for (_, d) in ev {
            cur += d;
            mx = mx.max(cur);
        }
        if mx >= 2 {
            f.add("waiting_list_ge2", 1);
        }
        if mx >= 3 {
            f.add("waiting_list_ge3", 1);
        }
        if mx >= 5 {
            f.add("waiting_list_ge5", 1);
        }
    }
    // generic classes
    for o in ops.iter() {
        if o.res != Res::Skip && !o.implicit {
            f.add("ops", 1);
        }
        if o.k.is_send() && matches!(o.res, Res::Err(_) | Res::Bool(false)) {
            f.add("failed_send", 1);
        }
        if o.k.is_send() && matches!(o.res, Res::Unit | Res::Bool(true)) {
            let gi = ops.iter().position(|x| std::ptr::eq(x, o)).unwrap_or(0);
            let handed = handoffs.iter().any(|h| h.0 == gi && h.2 == N::HANDOFF_WRITE);
            if !handed && a.on[gi].reg_send.is_none() {
                f.add_dyn(format!("matrix/{}/through_buffer/-", prog.pay.name()), 1);
            }
        }
        if let Res::Dropped(n) = o.res {
            f.add(if n == 0 { "future_drop_unpolled" } else { "future_drop_polled" }, 1);
            if n > 0 && o.k.is_recv() {
                // did the dropped receive future consume a value?
                let gi = ops.iter().position(|x| std::ptr::eq(x, o)).unwrap_or(usize::MAX) as u32;
                let consumed = a.led.pays.iter().any(|p| p.drops.iter().any(|d| !d.harness && d.in_op == gi && p.by_op != gi));
                f.add(if consumed { "recv_future_dropped_after_claim" } else { "recv_future_dropped_while_pending" }, 1);
            }
        }
        if o.k == K::Close && o.res == Res::Unit {
            f.add("close_ok", 1);
        }
        if o.k == K::ConvertH {
            f.add("convert", 1);
        }
        if o.k == K::CloneH {
            f.add(if o.a % 3 == 1 { "clone_cross" } else { "clone_same" }, 1);
        }
        f.add("spurious_polls", o.polls.iter().filter(|p| p.spurious).count() as u32);
        if o.wakers.len() > 1 {
            f.add("waker_changes", (o.wakers.len() - 1) as u32);
        }
    }
    if !out.exec.stuck.is_empty() {
        f.add("stuck_state", 1);
    }
    match &out.outcome.end {
        rt::End::Complete => f.add("complete", 1),
        rt::End::Abandoned(_) => f.add("abandoned", 1),
        rt::End::Budget => f.add("budget", 1),
    }
    (v, f)
}

fn ledger_preds(a: &Analysis, v: &mut Vec<Viol>, f: &mut Feat) {
    let led = a.led;
    let droppable = a.prog.pay_droppable();
    for (raw, st) in led.unknown_drops.iter() {
        v.push(Viol {
            pred: "drop_of_unknown_value",
            op: None,
            detail: format!("a value claiming id {} was dropped at stamp {} but never created", raw, st),
        });
    }
    for (op, id) in led.corrupt_received.iter() {
        v.push(Viol {
            pred: "corrupt_value",
            op: Some(*op),
            detail: format!(
                "{} returned a value (claimed id {}) that is not bit-for-bit any value sent",
                a.ops[*op as usize].k.name(),
                id
            ),
        });
    }
    if a.prog.pay_is_zst() {
        if a.complete {
            let created = led.zst_created;
            let total = led.zst_dropped_by_harness + led.zst_dropped_by_kanal;
            if total > created {
                v.push(Viol {
                    pred: "double_drop",
                    op: None,
                    detail: format!("zero-sized payloads: {} created, {} destroyed", created, total),
                });
            } else if total < created {
                // values are indistinguishable: if every send of the program succeeded, the
                // missing one is a successfully sent value that vanished
                let all_sent_ok = a.ops.iter().filter(|o| o.sent.is_some()).all(|o| send_out(o) == SendOut::Success);
                v.push(Viol {
                    pred: if all_sent_ok { "lost_value" } else { "leak" },
                    op: None,
                    detail: format!("zero-sized payloads: {} created, {} destroyed", created, total),
                });
            }
            if led.zst_received > created {
                v.push(Viol {
                    pred: "dup_recv",
                    op: None,
                    detail: format!("zero-sized payloads: {} created, {} received", created, led.zst_received),
                });
            }
        }
        return;
    }
    for (id, p) in led.pays.iter().enumerate() {
        if !p.created || a.is_sentinel(p) {
            continue;
        }
        let o = &a.ops[p.by_op as usize];
        let (nrecv, ndrop) = a.fate(p);
        let so = send_out(o);
        let kname = o.k.name();
        if nrecv >= 2 {
            v.push(Viol {
                pred: "dup_recv",
                op: Some(p.recv_by[1]),
                detail: format!(
                    "value {} (sent by {}) was returned by {} receive operations: ops {:?}",
                    id, kname, nrecv, p.recv_by
                ),
            });
        }
        if so == SendOut::Failure && nrecv >= 1 {
            v.push(Viol {
                pred: "recv_after_failed_send",
                op: Some(p.by_op),
                detail: format!("{} reported {:?} but its value {} was received", kname, o.res, id),
            });
        }
        // Option protocol
        if o.k.is_option() {
            match (so, o.opt_after) {
                (SendOut::Success, Some(true)) => v.push(Viol {
                    pred: "option_not_taken_on_success",
                    op: Some(p.by_op),
                    detail: format!("{} succeeded but left Some in the option", kname),
                }),
                (SendOut::Failure, Some(false)) => v.push(Viol {
                    pred: "option_taken_on_failure",
                    op: Some(p.by_op),
                    detail: format!("{} reported {:?} but took the value out of the option", kname, o.res),
                }),
                _ => {}
            }
        }
        if !droppable {
            continue;
        }
        if ndrop >= 2 || (ndrop >= 1 && (nrecv >= 1 || p.returned)) {
            let d = p.drops.iter().find(|d| !d.harness).unwrap();
            v.push(Viol {
                pred: "double_drop",
                op: Some(p.by_op),
                detail: format!(
                    "value {} of {} -> {:?}: destroyed by the library {} time(s) (first in op {}), received {} time(s), handed back: {}",
                    id, kname, o.res, ndrop, d.in_op as i64, nrecv, p.returned
                ),
            });
            continue;
        }
        if !a.complete || so == SendOut::Stuck || so == SendOut::Other {
            continue;
        }
        let fates = nrecv + ndrop + p.returned as usize;
        if fates == 0 {
            v.push(Viol {
                pred: if so == SendOut::Success { "lost_value" } else { "leak" },
                op: Some(p.by_op),
                detail: format!(
                    "value {} of {} -> {:?}: never received, never destroyed, not handed back",
                    id, kname, o.res
                ),
            });
        }
        match so {
            SendOut::Success => {
                if p.returned {
                    v.push(Viol {
                        pred: "option_not_taken_on_success",
                        op: Some(p.by_op),
                        detail: format!("{} succeeded but the value came back", kname),
                    });
                }
                if ndrop == 1 {
                    f.add("destroyed_by_channel", 1);
                }
            }
            SendOut::Failure => {
                if ndrop == 1 {
                    let d = p.drops.iter().find(|d| !d.harness).unwrap();
                    if d.in_op == p.by_op {
                        f.add("failed_send_dropped_by_sender", 1);
                    }
                }
                if p.returned {
                    f.add("failed_send_handed_back", 1);
                }
            }
            SendOut::Cancelled => {
                if nrecv == 1 {
                    f.add("cancelled_but_delivered", 1);
                } else {
                    f.add("cancelled_not_delivered", 1);
                }
            }
            _ => {}
        }
    }
}

/// acceptance stamp of a send: registration if it waited, return otherwise
fn accepted_at(a: &Analysis, i: usize) -> u64 {
    a.on[i].reg_send.unwrap_or_else(|| retx(&a.ops[i]))
}

fn fifo_preds(a: &Analysis, v: &mut Vec<Viol>, f: &mut Feat) {
    if a.prog.pay_is_zst() {
        return;
    }
    // delivered values: (id, send op, receive op, position in the receive op's output)
    let mut del: Vec<(u32, usize, usize, usize)> = Vec::new();
    for (id, p) in a.led.pays.iter().enumerate() {
        if !p.created || a.is_sentinel(p) || p.recv_by.len() != 1 {
            continue;
        }
        let r = p.recv_by[0] as usize;
        let pos = got(&a.ops[r]).iter().position(|x| *x == id as u32).unwrap_or(0);
        del.push((id as u32, p.by_op as usize, r, pos));
    }
    let mut simultaneous_reg = 0;
    for x in del.iter() {
        for y in del.iter() {
            if x.0 == y.0 {
                continue;
            }
            let (sa, sb) = (x.1, y.1);
            // A accepted-before B ?
            if accepted_at(a, sa) < a.ops[sb].inv {
                if a.on[sa].reg_send.is_some() && a.on[sb].reg_send.is_some() {
                    simultaneous_reg += 1;
                }
                let (ra, rb) = (x.2, y.2);
                let bad = if ra == rb {
                    y.3 < x.3
                } else {
                    retx(&a.ops[rb]) < a.ops[ra].inv
                };
                if bad {
                    v.push(Viol {
                        pred: "fifo",
                        op: Some(rb as u32),
                        detail: format!(
                            "value {} ({} op {}, accepted at {}) precedes value {} ({} op {}, invoked at {}) but was delivered after it: receive ops {} and {}",
                            x.0, a.ops[sa].k.name(), sa, accepted_at(a, sa),
                            y.0, a.ops[sb].k.name(), sb, a.ops[sb].inv, ra, rb
                        ),
                    });
                }
            }
        }
    }
    f.add("ordered_pairs_both_registered", simultaneous_reg);
    // waiting receivers are served in the order they registered: if RA was already waiting
    // before RB began, a send that completed before another send began must not have served
    // RB while leaving RA for the later one
    for x in del.iter() {
        for y in del.iter() {
            if x.0 == y.0 {
                continue;
            }
            let (ra, rb) = (x.2, y.2);
            if ra == rb {
                continue;
            }
            let (Some(reg_a), Some(_)) = (a.on[ra].reg_recv, a.on[rb].reg_recv) else { continue };
            if reg_a < a.ops[rb].inv {
                let (sa, sb) = (x.1, y.1);
                // both served directly (their sends never waited themselves)
                if a.on[sa].reg_send.is_none() && a.on[sb].reg_send.is_none() && retx(&a.ops[sb]) < a.ops[sa].inv {
                    v.push(Viol {
                        pred: "receiver_order",
                        op: Some(rb as u32),
                        detail: format!(
                            "receive op {} was waiting (registered at {}) before receive op {} began (at {}), yet the earlier send (op {}, value {}) served the later waiter and the later send (op {}, value {}) the earlier one",
                            ra, reg_a, rb, a.ops[rb].inv, sb, y.0, sa, x.0
                        ),
                    });
                }
            }
        }
    }
    // a cancel / timeout that removed a registered sender
    for (i, o) in a.ops.iter().enumerate() {
        if o.k.is_send()
            && a.on[i].reg_send.is_some()
            && (o.res == Res::Err(E::Timeout) || matches!(o.res, Res::Dropped(_)))
        {
            f.add("registered_sender_cancelled", 1);
        }
    }
}

fn capacity_preds(a: &Analysis, v: &mut Vec<Viol>, f: &mut Feat) {
    let n = a.prog.cap_n();
    let unbounded = a.prog.cap == Cap::Unbounded;
    // observers
    for (i, o) in a.ops.iter().enumerate() {
        if let Res::Obs(ob) = &o.res {
            if !unbounded && ob.len > n {
                v.push(Viol {
                    pred: "len_exceeds_capacity",
                    op: Some(i as u32),
                    detail: format!("len() = {} on a channel bounded to {}", ob.len, n),
                });
            }
            if unbounded && (ob.is_full || ob.is_bounded || ob.capacity != usize::MAX) {
                v.push(Viol {
                    pred: "unbounded_reports_bounded",
                    op: Some(i as u32),
                    detail: format!("{:?}", ob),
                });
            }
            if !unbounded && (ob.capacity != n || !ob.is_bounded) {
                v.push(Viol {
                    pred: "capacity_misreported",
                    op: Some(i as u32),
                    detail: format!("{:?} on a channel bounded to {}", ob, n),
                });
            }
        }
    }
    if unbounded {
        for (i, o) in a.ops.iter().enumerate() {
            if a.on[i].reg_send.is_some() {
                v.push(Viol {
                    pred: "unbounded_send_blocked",
                    op: Some(i as u32),
                    detail: format!("{} registered as a blocked sender on an unbounded channel", o.k.name()),
                });
            }
            // only the realtime variants may refuse because the lock was busy
            if o.k.is_send() && o.res == Res::Bool(false) && !(o.k.is_rt() && a.on[i].try_lock_failed > 0) {
                v.push(Viol {
                    pred: "unbounded_send_refused",
                    op: Some(i as u32),
                    detail: format!("{} was refused on an unbounded channel", o.k.name()),
                });
            }
        }
        return;
    }
    if a.prog.pay_is_zst() {
        // counts only
        let mut ev: Vec<(u64, i64)> = Vec::new();
        for o in a.ops.iter() {
            if o.k.is_send() && send_out(o) == SendOut::Success {
                ev.push((retx(o), 1));
            }
            if o.k.is_recv() {
                let g = match &o.res {
                    Res::Val(_) => 1,
                    Res::Count(n, _) => *n as i64,
                    // a polled receive future that is dropped may have consumed one value
                    Res::Dropped(n) if *n >= 1 => 1,
                    _ => 0,
                };
                if g > 0 {
                    ev.push((o.inv, -g));
                }
            }
        }
        ev.sort();
        let mut bal = 0i64;
        for (t, d) in ev {
            bal += d;
            if d > 0 && bal > n as i64 {
                v.push(Viol {
                    pred: "capacity_exceeded",
                    op: None,
                    detail: format!("at stamp {} successful sends exceed values taken by {} > {}", t, bal, n),
                });
                break;
            }
        }
        return;
    }
    // S(t) - R(t) <= n at every successful send's return
    let mut sends: Vec<(u64, usize)> = a
        .ops
        .iter()
        .enumerate()
        .filter(|(_, o)| o.k.is_send() && send_out(o) == SendOut::Success && o.ret != 0)
        .map(|(i, o)| (o.ret, i))
        .collect();
    sends.sort();
    let mut max_bal = 0i64;
    for (k, (t, i)) in sends.iter().enumerate() {
        let s = (k + 1) as i64;
        let mut r = 0i64;
        for o in a.ops.iter() {
            if o.k.is_recv() && o.inv <= *t {
                r += got(o).len() as i64;
                // a polled receive future that was dropped may have consumed one value
                // (the documented caveat); invisible when the payload has no destructor
                if !a.prog.pay_droppable() && matches!(o.res, Res::Dropped(n) if n >= 1) {
                    r += 1;
                }
            }
        }
        // values destroyed by the library (close, or consumed by a dropped receive
        // future) also leave the buffer; the earliest instant that can have happened counts
        let mut destroyed = 0i64;
        for (id, p) in a.led.pays.iter().enumerate() {
            if p.created && !a.is_sentinel(p) && p.recv_by.is_empty() {
                if p.drops.iter().any(|d| !d.harness && d.in_op != p.by_op) && a.take_begin(id as u32) <= *t {
                    destroyed += 1;
                }
            }
        }
        let bal = s - r - destroyed;
        max_bal = max_bal.max(bal);
        if bal > n as i64 {
            v.push(Viol {
                pred: "capacity_exceeded",
                op: Some(*i as u32),
                detail: format!(
                    "when {} (op {}) returned success, {} sends had succeeded but only {} values had been taken by receive operations already begun ({} destroyed): capacity {}",
                    a.ops[*i].k.name(), i, s, r, destroyed, n
                ),
            });
            break;
        }
    }
    if max_bal == n as i64 && a.ops.iter().enumerate().any(|(i, _)| a.on[i].reg_send.is_some()) {
        f.add("full_with_sender_pending", 1);
    }
    if n == 0 && !sends.is_empty() {
        f.add("rendezvous_success", 1);
    }
}

fn blocking_kind(o: &OpRec) -> bool {
    matches!(
        o.k,
        K::Send
            | K::SendTimeout
            | K::SendOptTimeout
            | K::AsyncSend
            | K::Recv
            | K::RecvTimeout
            | K::IterNext
            | K::AsyncRecv
            | K::StreamNext
    )
}

fn progress_preds(a: &Analysis, out: &RunOut, v: &mut Vec<Viol>, f: &mut Feat) {
    if let Some(t) = out.outcome.livelock {
        // which operation was it in?
        let cur = a.ops.iter().enumerate().rev().find(|(_, o)| o.t == t && o.ret == 0);
        let (opi, wher) = match cur {
            Some((i, o)) if o.k.is_async() => (Some(i as u32), format!("inside a poll / drop of {}", o.k.name())),
            Some((i, o)) => (Some(i as u32), format!("inside {}", o.k.name())),
            None => (None, "outside any operation".to_string()),
        };
        v.push(Viol {
            pred: "livelock",
            op: opi,
            detail: format!("thread {} spins for ever under a fair schedule, {}", t, wher),
        });
    }
    if let rt::End::Abandoned(w) = &out.outcome.end {
        if w.contains("uninterruptible") {
            let cur = a.ops.iter().enumerate().rev().find(|(_, o)| o.ret == 0 && o.k.is_try());
            v.push(Viol {
                pred: "realtime_unbounded",
                op: cur.map(|(i, _)| i as u32),
                detail: format!(
                    "{} did not return while every other thread was suspended",
                    cur.map(|(_, o)| o.k.name()).unwrap_or("an operation run alone")
                ),
            });
        } else if out.outcome.livelock.is_none() {
            v.push(Viol {
                pred: "not_released",
                op: None,
                detail: format!("execution could not be torn down: {}", w),
            });
        }
    }
    if !a.ex.still_stuck_after_close.is_empty() {
        v.push(Viol {
            pred: "waiter_survived_close",
            op: None,
            detail: format!(
                "threads {:?} were still blocked after close() returned",
                a.ex.still_stuck_after_close
            ),
        });
    }
    let Some(rs) = a.ex.rescue_stamp else { return };
    let q = a.quiescent(rs);
    let n = a.prog.cap_n();
    for (t, gi, st) in a.ex.stuck.iter() {
        if *gi == u32::MAX {
            v.push(Viol {
                pred: "stuck_illegit",
                op: None,
                detail: format!("thread {} blocked ({}) outside any operation", t, st),
            });
            continue;
        }
        let o = &a.ops[*gi as usize];
        let mut why: Option<String> = None;
        if !blocking_kind(o) {
            why = Some(format!("{} must never block", o.k.name()));
        } else if o.k.is_timed() {
            why = Some("a timed operation must report Timeout once its deadline has passed".into());
        } else if q.closed {
            why = Some("the channel is closed".into());
        } else if o.k.is_send() {
            let id = o.sent.unwrap_or(u32::MAX);
            let taken = !a.prog.pay_is_zst()
                && (id as usize) < a.led.pays.len()
                && a.taken_time(id) < rs;
            if taken {
                why = Some(format!("its value {} was already taken by a receiver", id));
            } else if q.live_r <= 0 {
                why = Some("no receiver handle is left".into());
            } else if !q.blocked_recv.is_empty() {
                why = Some(format!("a receiver (op {}) is blocked at the same time", q.blocked_recv[0]));
            } else if a.len_known() && q.len < n {
                why = Some(format!("the buffer has room ({} of {})", q.len, n));
            }
        } else {
            if q.live_s <= 0 {
                why = Some("no sender handle is left".into());
            } else if !q.blocked_send.is_empty() {
                why = Some(format!("a sender (op {}) is blocked at the same time", q.blocked_send[0]));
            } else if a.len_known() && q.len > 0 {
                why = Some(format!("{} value(s) are buffered", q.len));
            }
        }
        match why {
            Some(w) => v.push(Viol {
                pred: "stuck_illegit",
                op: Some(*gi),
                detail: format!("thread {} is blocked ({}) in {} although {}", t, st, o.k.name(), w),
            }),
            None => f.add("stuck_legit", 1),
        }
    }
}

fn close_preds(a: &Analysis, v: &mut Vec<Viol>, f: &mut Feat) {
    let closes: Vec<usize> = a
        .ops
        .iter()
        .enumerate()
        .filter(|(_, o)| o.k == K::Close && o.res == Res::Unit)
        .map(|(i, _)| i)
        .collect();
    if closes.len() > 1 {
        v.push(Viol {
            pred: "close_twice_ok",
            op: Some(closes[1] as u32),
            detail: format!("close() reported success {} times: ops {:?}", closes.len(), closes),
        });
    }
    let Some(&c) = closes.first() else { return };
    let co = &a.ops[c];
    let cret = retx(co);
    // was anything in flight / waiting / buffered when close ran?
    let mut inflight = 0;
    for (i, o) in a.ops.iter().enumerate() {
        if i != c && o.inv < cret && retx(o) > co.inv && o.res != Res::Skip && !matches!(o.k, K::Yield) {
            inflight += 1;
        }
    }
    if inflight > 0 {
        f.add("close_with_inflight", 1);
    }
    let mut waiters = 0;
    for (i, _) in a.ops.iter().enumerate() {
        let r = a.on[i].reg_send.or(a.on[i].reg_recv);
        if let Some(r) = r {
            if r < cret && retx(&a.ops[i]) > co.inv {
                waiters += 1;
            }
        }
    }
    if waiters > 0 {
        f.add("close_with_waiter", 1);
    }
    for (i, o) in a.ops.iter().enumerate() {
        if o.inv <= cret || i == c {
            continue;
        }
        let bad = match (&o.res, o.k) {
            (Res::Skip, _) | (Res::Stuck, _) | (Res::Done, _) => None,
            _ if a.rt_busy(i) => None,
            (Res::Err(E::Closed), _) => None,
            (Res::Err(E::CloseErr), K::Close) => None,
            (Res::End, K::IterNext) | (Res::End, K::StreamNext) => None,
            (Res::Dropped(0), _) => None,
            (Res::Obs(ob), _) => {
                if ob.len != 0 || ob.senders != 0 || ob.receivers != 0 || !ob.is_closed || !ob.is_disconnected {
                    Some(format!("observers after close: {:?}", ob))
                } else {
                    None
                }
            }
            (r, _) => Some(format!("returned {:?}", r)),
        };
        if let Some(b) = bad {
            v.push(Viol {
                pred: "op_after_close",
                op: Some(i as u32),
                detail: format!(
                    "{} invoked (stamp {}) after close() had returned (stamp {}) {}",
                    o.k.name(),
                    o.inv,
                    cret,
                    b
                ),
            });
        }
    }
    // buffered values are destroyed by the time close returns
    if a.prog.pay_droppable() && !a.prog.pay_is_zst() && a.complete {
        for (id, p) in a.led.pays.iter().enumerate() {
            if !p.created || a.is_sentinel(p) || !p.recv_by.is_empty() {
                continue;
            }
            let so = &a.ops[p.by_op as usize];
            if send_out(so) == SendOut::Success && retx(so) < co.inv {
                // accepted before close began, never received: must die inside close
                // (a value handed to a pending receive future that is dropped later
                // was not buffered: `take_begin` is then that future's invocation)
                let ok = a.take_begin(id as u32) <= cret;
                if ok {
                    f.add("destroyed_by_close", 1);
                } else {
                    v.push(Viol {
                        pred: "close_left_value_alive",
                        op: Some(c as u32),
                        detail: format!(
                            "value {} was accepted before close() began and never received, but was not destroyed by the time close() returned (drops: {:?})",
                            id, p.drops
                        ),
                    });
                }
            }
        }
    }
}

/// number of handles of a side whose creation began before `t` minus drops completed
/// before `t` (upper bound), and created-completed minus drops-begun (lower bound)
fn live_bounds(a: &Analysis, send: bool, lo_t: u64, hi_t: u64) -> (i32, i32) {
    let init = if send { a.ex.live_send } else { a.ex.live_recv };
    let (mut lo, mut hi) = (init, init);
    for o in a.ops.iter() {
        if o.side_send != Some(send) {
            continue;
        }
        match o.k {
            K::CloneH => {
                if retx(o) < lo_t {
                    lo += 1;
                }
                if o.inv < hi_t {
                    hi += 1;
                }
            }
            K::DropH => {
                if o.inv < hi_t {
                    lo -= 1;
                }
                if retx(o) < lo_t {
                    hi -= 1;
                }
            }
            _ => {}
        }
    }
    (lo.max(0), hi)
}

fn disconnect_preds(a: &Analysis, v: &mut Vec<Viol>, f: &mut Feat) {
    let close_inv = a
        .ops
        .iter()
        .filter(|o| o.k == K::Close && o.res == Res::Unit)
        .map(|o| o.inv)
        .min()
        .unwrap_or(INF)
        .min(a.ex.rescue_stamp.unwrap_or(INF));
    for (i, o) in a.ops.iter().enumerate() {
        let r = retx(o);
        // a disconnect error needs every handle of the other side to be (being) dropped
        if o.res == Res::Err(E::SendClosed) {
            let (lo, _) = live_bounds(a, true, o.inv, r);
            // lo counts handles whose drop has not even begun before the op returned
            if lo > 0 {
                v.push(Viol {
                    pred: "disconnect_while_handle_alive",
                    op: Some(i as u32),
                    detail: format!(
                        "{} returned SendClosed while at least {} sender handle(s) had not begun to drop",
                        o.k.name(),
                        lo
                    ),
                });
            }
            f.add("send_closed_seen", 1);
            // every value accepted before this op began must already be taken
            if !a.prog.pay_is_zst() {
                for (id, p) in a.led.pays.iter().enumerate() {
                    if !p.created || a.is_sentinel(p) {
                        continue;
                    }
                    let so = &a.ops[p.by_op as usize];
                    if send_out(so) == SendOut::Success && retx(so) < o.inv {
                        let taken_before = a.take_begin(id as u32) < r;
                        if !taken_before && a.prog.pay_droppable() {
                            v.push(Viol {
                                pred: "send_closed_before_drained",
                                op: Some(i as u32),
                                detail: format!(
                                    "{} returned SendClosed although value {} had been accepted earlier and not yet taken",
                                    o.k.name(),
                                    id
                                ),
                            });
                        }
                    }
                }
            }
        }
        if o.res == Res::End && matches!(o.k, K::IterNext | K::StreamNext) && !a.prog.pay_is_zst() && a.prog.pay_droppable() {
            // the iterator / stream ended: nothing accepted earlier may still be waiting
            let already_ended = o.k == K::StreamNext
                && a.ops[..i].iter().any(|p| p.k == K::StreamNext && p.stream_id == o.stream_id && p.res == Res::End);
            let closed_before = a
                .ops
                .iter()
                .any(|c| c.k == K::Close && c.res == Res::Unit && c.inv < r)
                || a.ex.rescue_stamp.map(|x| x < r).unwrap_or(false);
            if !already_ended && !closed_before {
                for (id, p) in a.led.pays.iter().enumerate() {
                    if !p.created || a.is_sentinel(p) {
                        continue;
                    }
                    let so = &a.ops[p.by_op as usize];
                    if send_out(so) == SendOut::Success && retx(so) < o.inv && a.take_begin(id as u32) >= r {
                        v.push(Viol {
                            pred: "end_before_drained",
                            op: Some(i as u32),
                            detail: format!(
                                "{} reported the end although value {} had been accepted earlier and had not been taken by anybody",
                                o.k.name(),
                                id
                            ),
                        });
                    }
                }
            }
        }
        if o.res == Res::Err(E::ReceiveClosed) {
            let (lo, _) = live_bounds(a, false, o.inv, r);
            if lo > 0 {
                v.push(Viol {
                    pred: "disconnect_while_handle_alive",
                    op: Some(i as u32),
                    detail: format!(
                        "{} returned ReceiveClosed while at least {} receiver handle(s) had not begun to drop",
                        o.k.name(),
                        lo
                    ),
                });
            }
            f.add("receive_closed_seen", 1);
        }
        if o.inv >= close_inv || o.res == Res::Skip || o.ret == 0 {
            continue;
        }
        // ops begun after the last handle of the other side is completely gone
        if o.k.is_send() && r < close_inv {
            let (_, hi) = live_bounds(a, false, o.inv, o.inv);
            if hi <= 0 {
                f.add("send_after_receivers_gone", 1);
                let ok = matches!(o.res, Res::Err(E::ReceiveClosed) | Res::Err(E::Closed) | Res::Dropped(0))
                    || matches!(o.res, Res::Panic(_))
                    || a.rt_busy(i);
                if !ok {
                    v.push(Viol {
                        pred: "send_after_disconnect",
                        op: Some(i as u32),
                        detail: format!(
                            "{} invoked after the last receiver handle was gone returned {:?}",
                            o.k.name(),
                            o.res
                        ),
                    });
                }
            }
        }
        if o.k.is_recv() && o.k != K::StreamDrop && r < close_inv {
            let (_, hi) = live_bounds(a, true, o.inv, o.inv);
            if hi <= 0 {
                f.add("recv_after_senders_gone", 1);
                let ok = match &o.res {
                    Res::Val(_) | Res::Count(..) => true,
                    Res::Err(E::SendClosed) | Res::Err(E::Closed) | Res::End | Res::Dropped(_) => true,
                    Res::Err(E::Timeout) => true,
                    Res::Panic(_) => true,
                    _ => a.rt_busy(i),
                };
                if !ok {
                    v.push(Viol {
                        pred: "recv_after_disconnect",
                        op: Some(i as u32),
                        detail: format!(
                            "{} invoked after the last sender handle was gone returned {:?}",
                            o.k.name(),
                            o.res
                        ),
                    });
                }
            }
        }
    }
    // classification: a 1 -> 0 transition with a registered waiter
    for (i, o) in a.ops.iter().enumerate() {
        if o.k == K::DropH && o.side_send.is_some() {
            let side = o.side_send.unwrap();
            let (_, hi) = live_bounds(a, side, retx(o).saturating_add(1), retx(o).saturating_add(1));
            if hi <= 0 {
                let waiting = a.ops.iter().enumerate().any(|(j, w)| {
                    j != i
                        && (a.on[j].reg_send.or(a.on[j].reg_recv)).map(|r| r < o.inv).unwrap_or(false)
                        && retx(w) > o.inv
                });
                if waiting {
                    f.add("last_drop_with_waiter", 1);
                }
            }
        }
    }
}

fn count_preds(a: &Analysis, v: &mut Vec<Viol>, f: &mut Feat) {
    let close_iv: Option<(u64, u64)> = a
        .ops
        .iter()
        .filter(|o| o.k == K::Close && o.res == Res::Unit)
        .map(|o| (o.inv, retx(o)))
        .next();
    let rescue = a.ex.rescue_stamp.unwrap_or(INF);
    for (i, o) in a.ops.iter().enumerate() {
        let Res::Obs(ob) = &o.res else { continue };
        if o.inv > rescue {
            continue;
        }
        f.add("observe", 1);
        let r = retx(o);
        let (closed_before, closed_maybe) = match close_iv {
            Some((ci, cr)) => (cr < o.inv, ci < r),
            None => (false, false),
        };
        let (slo, shi) = live_bounds(a, true, o.inv, r);
        let (rlo, rhi) = live_bounds(a, false, o.inv, r);
        let s_ok = if closed_before {
            ob.senders == 0
        } else {
            (ob.senders as i32 >= slo && ob.senders as i32 <= shi) || (closed_maybe && ob.senders == 0)
        };
        let r_ok = if closed_before {
            ob.receivers == 0
        } else {
            (ob.receivers as i32 >= rlo && ob.receivers as i32 <= rhi) || (closed_maybe && ob.receivers == 0)
        };
        if !s_ok || !r_ok {
            v.push(Viol {
                pred: "count_mismatch",
                op: Some(i as u32),
                detail: format!(
                    "sender_count={} (live handles between {} and {}), receiver_count={} (between {} and {}), closed_before={}",
                    ob.senders, slo, shi, ob.receivers, rlo, rhi, closed_before
                ),
            });
        }
        if ob.is_closed != (ob.senders == 0 && ob.receivers == 0) && !closed_maybe {
            v.push(Viol {
                pred: "count_mismatch",
                op: Some(i as u32),
                detail: format!("is_closed inconsistent with counts: {:?}", ob),
            });
        }
    }
}

fn expected_obs(a: &Analysis, q: &Quiescent, send_side: bool) -> (usize, bool, bool, u32, u32, bool, bool) {
    let n = a.prog.cap_n();
    let len = if q.closed { 0 } else { q.len };
    let (s, r) = if q.closed {
        (0, 0)
    } else {
        (q.live_s.max(0) as u32, q.live_r.max(0) as u32)
    };
    let disc = if send_side { r == 0 } else { s == 0 };
    (len, len == 0, len == n, s, r, q.closed, disc)
}

fn quiescent_preds(a: &Analysis, v: &mut Vec<Viol>, f: &mut Feat) {
    let zst = !a.len_known();
    let n = a.prog.cap_n();
    let rescue = a.ex.rescue_stamp.unwrap_or(INF);
    let mut check_obs = |ob: &crate::interp::Obs, t: u64, send_side: Option<bool>, opi: Option<u32>, v: &mut Vec<Viol>| {
        let q = a.quiescent(t);
        let side = send_side.unwrap_or(true);
        let (len, is_empty, is_full, s, r, closed, disc) = expected_obs(a, &q, side);
        let mut bad = Vec::new();
        if !zst {
            if ob.len != len {
                bad.push(format!("len {} expected {}", ob.len, len));
            }
            if ob.is_empty != is_empty {
                bad.push(format!("is_empty {} expected {}", ob.is_empty, is_empty));
            }
            if ob.is_full != is_full {
                bad.push(format!("is_full {} expected {}", ob.is_full, is_full));
            }
        }
        if ob.senders != s || ob.receivers != r {
            bad.push(format!("counts {}/{} expected {}/{}", ob.senders, ob.receivers, s, r));
        }
        if ob.is_closed != closed {
            bad.push(format!("is_closed {} expected {}", ob.is_closed, closed));
        }
        if send_side.is_some() && ob.is_disconnected != disc {
            bad.push(format!("is_disconnected {} expected {}", ob.is_disconnected, disc));
        }
        if let (Some(false), Some(term)) = (send_side, ob.is_terminated) {
            let exp = s == 0 && (zst || len == 0);
            if !zst && term != exp {
                bad.push(format!("is_terminated {} expected {}", term, exp));
            }
        }
        if !bad.is_empty() {
            v.push(Viol {
                pred: "quiescent_observer_mismatch",
                op: opi,
                detail: format!("at a quiescent point: {}", bad.join("; ")),
            });
        }
    };
    for (i, o) in a.ops.iter().enumerate() {
        if o.t != a.prober_t || o.inv > rescue {
            continue;
        }
        f.add("prober_op", 1);
        let q = a.quiescent(o.inv);
        match (&o.res, o.k) {
            (Res::Obs(ob), _) => check_obs(ob, o.inv, o.side_send, Some(i as u32), v),
            (res, K::TrySend) | (res, K::TrySendOpt) => {
                let exp = if q.closed {
                    Res::Err(E::Closed)
                } else if q.live_r <= 0 {
                    Res::Err(E::ReceiveClosed)
                } else if !q.blocked_recv.is_empty() {
                    Res::Bool(true)
                } else if zst {
                    res.clone()
                } else {
                    Res::Bool(q.len < n)
                };
                if *res == Res::Bool(false) {
                    f.add("prober_try_send_refused", 1);
                }
                if *res != exp {
                    v.push(Viol {
                        pred: "quiescent_try_send_mismatch",
                        op: Some(i as u32),
                        detail: format!(
                            "{} at a quiescent point returned {:?}, expected {:?} (buffer {} of {}, {} receiver(s) waiting)",
                            o.k.name(), res, exp, q.len, n, q.blocked_recv.len()
                        ),
                    });
                }
            }
            (res, K::TryRecv) => {
                let has = q.len > 0 || !q.blocked_send.is_empty();
                let ok = if q.closed {
                    *res == Res::Err(E::Closed)
                } else if zst {
                    true
                } else if has {
                    matches!(res, Res::Val(_))
                } else if q.live_s <= 0 {
                    *res == Res::Err(E::SendClosed)
                } else {
                    *res == Res::NoneV
                };
                if !ok {
                    v.push(Viol {
                        pred: "quiescent_try_recv_mismatch",
                        op: Some(i as u32),
                        detail: format!(
                            "try_recv at a quiescent point returned {:?} (buffer {}, {} sender(s) waiting, {} sender handle(s), closed {})",
                            res, q.len, q.blocked_send.len(), q.live_s, q.closed
                        ),
                    });
                }
            }
            (res, K::Drain) => {
                let ok = if q.closed {
                    *res == Res::Err(E::Closed)
                } else if zst {
                    true
                } else {
                    match res {
                        Res::Count(c, ids) => *c == ids.len() && *c == q.len + q.blocked_send.len(),
                        _ => false,
                    }
                };
                if !ok {
                    v.push(Viol {
                        pred: "quiescent_drain_mismatch",
                        op: Some(i as u32),
                        detail: format!(
                            "drain_into at a quiescent point returned {:?}, expected {} buffered + {} blocked sender value(s), closed {}",
                            res, q.len, q.blocked_send.len(), q.closed
                        ),
                    });
                }
            }
            _ => {}
        }
    }
    if let Some(ob) = &a.ex.final_obs {
        f.add("final_observation", 1);
        check_obs(ob, a.ex.final_obs_stamp, None, None, v);
    }
}

fn polling_preds(a: &Analysis, v: &mut Vec<Viol>, f: &mut Feat) {
    for (i, o) in a.ops.iter().enumerate() {
        if !o.k.is_async() || o.wakers.len() < 2 {
            continue;
        }
        // an older waker fired after a later waker's poll had returned Pending
        for (wi, w) in o.wakers.iter().enumerate() {
            if wi + 1 >= o.wakers.len() {
                break;
            }
            if o.wakers[wi + 1..].contains(w) {
                // the same waker identity became current again later (sibling wakers): its
                // wake is not a stale one
                continue;
            }
            // waker identities inherited from an earlier wait on the same stream (its persistent
            // waker, or the other face of it) may still receive the late wake of that wait
            let inherited = a.ops[..i]
                .iter()
                .any(|p| p.t == o.t && p.wakers.contains(w));
            if inherited {
                continue;
            }
            if o.k == K::StreamNext && wi == 0 {
                // the stream's own waker is shared by all waits on that stream: a sender of the
                // PREVIOUS wait may still be about to call wake() on its clone (harmless late
                // wake); only wakers created within this wait are judged
                continue;
            }
            // the poll that installed the next waker: polls are in order, and so are the
            // waker switches (a waker identity can recur with sibling wakers)
            let mut idx = 0usize;
            let mut installing: Option<&crate::interp::PollRec> = None;
            for pr in o.polls.iter() {
                while idx + 1 < o.wakers.len() && pr.waker != o.wakers[idx] && pr.waker == o.wakers[idx + 1] {
                    idx += 1;
                }
                if idx == wi + 1 {
                    installing = Some(pr);
                    break;
                }
            }
            let Some(p) = installing else { continue };
            if p.ready {
                continue;
            }
            let fired_late = a
                .notes
                .iter()
                // (within this operation: the identity may become current again in a later wait)
                .any(|n| n.kind == rt::NOTE_WAKER_FIRED && n.arg as u32 == *w && n.stamp > p.end && n.stamp <= retx(o));
            if fired_late {
                v.push(Viol {
                    pred: "stale_waker",
                    op: Some(i as u32),
                    detail: format!(
                        "{}: waker #{} was woken after the future had been re-polled (and stayed pending) with waker #{}",
                        o.k.name(),
                        wi,
                        wi + 1
                    ),
                });
            }
        }
    }
    // a stream that ended keeps reporting the end
    let mut ended: HashMap<u32, usize> = HashMap::new();
    for (i, o) in a.ops.iter().enumerate() {
        if o.k != K::StreamNext || o.stream_id == 0 {
            continue;
        }
        if let Some(e) = ended.get(&o.stream_id) {
            if !matches!(o.res, Res::End | Res::Dropped(_) | Res::Stuck) {
                v.push(Viol {
                    pred: "stream_resumed_after_end",
                    op: Some(i as u32),
                    detail: format!("stream returned {:?} after it had reported the end in op {}", o.res, e),
                });
            }
            f.add("stream_polled_after_end", 1);
        }
        if o.res == Res::End {
            ended.entry(o.stream_id).or_insert(i);
        }
    }
    // second wait on one stream
    let mut waits: HashMap<u32, u32> = HashMap::new();
    for o in a.ops.iter() {
        if o.k == K::StreamNext && o.polls.iter().any(|p| !p.ready) {
            *waits.entry(o.stream_id).or_insert(0) += 1;
        }
    }
    f.add("stream_second_wait", waits.values().filter(|c| **c >= 2).count() as u32);
}

fn drain_preds(a: &Analysis, v: &mut Vec<Viol>, f: &mut Feat) {
    for (i, o) in a.ops.iter().enumerate() {
        if o.k != K::Drain {
            continue;
        }
        f.add("drain", 1);
        if got(o).len() >= 64 {
            f.add("drain_ge64", 1);
        } else if got(o).len() >= 16 {
            f.add("drain_ge16", 1);
        }
        if o.prefix_ok == Some(false) {
            v.push(Viol {
                pred: "drain_prefix_or_error_append",
                op: Some(i as u32),
                detail: "drain_into changed the vector's previous contents, or appended although it reported an error".into(),
            });
        }
        let Res::Count(n, ids) = &o.res else { continue };
        if *n != ids.len() {
            v.push(Viol {
                pred: "drain_count_mismatch",
                op: Some(i as u32),
                detail: format!("drain_into returned {} but appended {} value(s)", n, ids.len()),
            });
        }
        if a.prog.pay_is_zst() {
            continue;
        }
        // every sender whose value was taken must report success
        for id in ids {
            if (*id as usize) >= a.led.pays.len() {
                continue;
            }
            let so = &a.ops[a.led.pays[*id as usize].by_op as usize];
            if send_out(so) == SendOut::Failure {
                v.push(Viol {
                    pred: "drained_sender_failed",
                    op: Some(i as u32),
                    detail: format!("value {} was drained but its {} returned {:?}", id, so.k.name(), so.res),
                });
            }
        }
        // values that were in the channel during the whole drain must have been taken by it
        let r = retx(o);
        for (id, p) in a.led.pays.iter().enumerate() {
            if !p.created || a.is_sentinel(p) || ids.contains(&(id as u32)) {
                continue;
            }
            let so = &a.ops[p.by_op as usize];
            if !a.delivered(id as u32) {
                continue;
            }
            let inside_before = accepted_at(a, p.by_op as usize) < o.inv && send_out(so) != SendOut::Cancelled
                || (send_out(so) == SendOut::Success && retx(so) < o.inv);
            if !inside_before {
                continue;
            }
            // when can it have left at the earliest?
            let left_after = a.take_begin(id as u32) > r;
            if left_after && a.complete && a.prog.pay_droppable() {
                v.push(Viol {
                    pred: "drain_missed_value",
                    op: Some(i as u32),
                    detail: format!(
                        "value {} was in the channel before drain_into began and left it only after drain_into returned, yet was not drained",
                        id
                    ),
                });
            }
        }
    }
}

thread_local! {
    pub static EXPLAIN: std::cell::Cell<bool> = const { std::cell::Cell::new(false) };
}

fn explain_pred(a: &Analysis, out: &RunOut, v: &mut Vec<Viol>, f: &mut Feat) {
    use crate::explain::{explain, Verdict};
    if !matches!(out.outcome.end, rt::End::Complete) || a.prog.pay_is_zst() || a.ops.is_empty() {
        f.add("explain_skipped", 1);
        return;
    }
    let cap = match a.prog.cap {
        Cap::N(n) => Some(n),
        Cap::Unbounded => None,
    };
    let busy = |i: usize| -> bool { i < a.on.len() && a.rt_busy(i) };
    let rescue = if a.ex.rescue_stamp.is_some() {
        a.ex.rescue_close.clone().map(|r| (a.prober_t as usize, r))
    } else {
        None
    };
    let mut syn = Vec::new();
    let nthreads = a.prober_t as usize + 1;
    match explain(
        a.ops,
        nthreads,
        cap,
        a.ex.live_send.max(0) as u32,
        a.ex.live_recv.max(0) as u32,
        &busy,
        rescue,
        &mut syn,
    ) {
        Verdict::Explained(n) => {
            f.add("explained", 1);
            f.add("explain_states", n.min(u32::MAX as usize) as u32);
            // concurrency actually mattered?
            let overlapping = a.ops.iter().enumerate().any(|(i, x)| {
                a.ops.iter().enumerate().any(|(j, y)| {
                    i != j && x.t != y.t && x.res != Res::Skip && y.res != Res::Skip && !x.implicit && !y.implicit && x.inv < retx(y) && y.inv < retx(x)
                })
            });
            if overlapping {
                f.add("overlapping_ops", 1);
            }
        }
        Verdict::NoExplanation(d) => v.push(Viol {
            pred: "not_explainable_by_atomic_channel",
            op: None,
            detail: d,
        }),
        Verdict::Inconclusive(_) => f.add("explain_inconclusive", 1),
    }
}
