//! Interpreter: runs a decoded `Program` on the controlled runtime against the hooked
//! kanal crate and records every invocation / result.

use crate::payload::{self, harness_drop, Payload, CUR_OP};
use crate::rt;
use common::ops::*;
use kanal::{
    AsyncReceiver, AsyncSender, ReceiveError, ReceiveErrorTimeout, ReceiveStream, Receiver,
    SendError, SendErrorTimeout, Sender,
};
use std::cell::UnsafeCell;
use std::future::Future;
use std::panic::{catch_unwind, AssertUnwindSafe};
use std::pin::Pin;
use std::sync::{Arc, Mutex};
use std::task::{Context, Poll, RawWaker, RawWakerVTable, Waker};
use std::time::Duration;

#[derive(Clone, Copy, Debug, PartialEq, Eq, Hash)]
pub enum E {
    Closed,
    SendClosed,
    ReceiveClosed,
    Timeout,
    CloseErr,
}

#[derive(Clone, Debug, PartialEq, Eq, Hash, Default)]
pub struct Obs {
    pub len: usize,
    pub is_empty: bool,
    pub is_full: bool,
    pub capacity: usize,
    pub is_bounded: bool,
    pub senders: u32,
    pub receivers: u32,
    pub is_closed: bool,
    pub is_disconnected: bool,
    pub is_terminated: Option<bool>,
}

#[derive(Clone, Debug, PartialEq, Eq, Hash)]
pub enum Res {
    /// not returned (yet)
    Stuck,
    Unit,
    Bool(bool),
    Val(u32),
    NoneV,
    Count(usize, Vec<u32>),
    Err(E),
    /// Iterator / stream end
    End,
    Panic(String),
    /// future / stream dropped by the script after n polls
    Dropped(u32),
    Skip,
    Obs(Obs),
    Done,
}

#[derive(Clone, Debug, PartialEq, Eq, Hash)]
pub struct PollRec {
    pub stamp: u64,
    pub end: u64,
    pub waker: u32,
    pub ready: bool,
    pub spurious: bool,
}

#[derive(Clone, Debug)]
pub struct OpRec {
    pub t: u8,
    pub i: u8,
    pub k: K,
    pub slot: u8,
    /// true if the handle used is the async flavour
    pub async_handle: bool,
    pub a: u8,
    pub b: u8,
    pub implicit: bool,
    pub inv: u64,
    pub ret: u64,
    pub vt_inv: u64,
    pub vt_ret: u64,
    pub sent: Option<u32>,
    pub res: Res,
    /// for Option-taking sends: Some(is_some_after)
    pub opt_after: Option<bool>,
    pub alone_points: Option<u32>,
    pub polls: Vec<PollRec>,
    /// wakers created by this op (runtime waker ids), in order
    pub wakers: Vec<u32>,
    pub panicked_after_done: Option<bool>,
    /// drain: number of sentinel elements before, whether they were intact after
    pub prefix_ok: Option<bool>,
    pub dur_ticks: u64,
    /// which side's 1 -> 0 transition / creation this handle op caused (for handle ledger)
    pub side_send: Option<bool>,
    pub after_rescue: bool,
    /// stream instance (per execution) used by a StreamNext op
    pub stream_id: u32,
    /// the script reached its drop step: what follows is the future's destructor
    pub dropping: bool,
}

#[derive(Default)]
pub struct Exec {
    pub ops: Vec<OpRec>,
    pub rescue_stamp: Option<u64>,
    pub rescued: bool,
    pub rescue_close: Option<Res>,
    pub stuck: Vec<(u8, u32, String)>,
    pub still_stuck_after_close: Vec<u8>,
    pub final_obs: Option<Obs>,
    pub final_obs_stamp: u64,
    pub live_send: i32,
    pub live_recv: i32,
    pub quiescent_obs: Vec<(u64, Obs)>,
    pub waker_misuse: Vec<String>,
    pub waker_keepalive: Vec<Arc<WakerData>>,
}

pub static EXEC: Mutex<Option<Exec>> = Mutex::new(None);

pub fn exec<R>(f: impl FnOnce(&mut Exec) -> R) -> R {
    let mut g = EXEC.lock().unwrap_or_else(|e| e.into_inner());
    f(g.as_mut().expect("exec state"))
}

pub enum H<P> {
    S(Box<Sender<P>>),
    AS(Box<AsyncSender<P>>),
    R(Box<Receiver<P>>),
    AR(Box<AsyncReceiver<P>>),
}

impl<P> H<P> {
    fn is_send(&self) -> bool {
        matches!(self, H::S(_) | H::AS(_))
    }
    fn is_async(&self) -> bool {
        matches!(self, H::AS(_) | H::AR(_))
    }
    fn sync_s(&self) -> &Sender<P> {
        match self {
            H::S(s) => s,
            H::AS(s) => s.as_sync(),
            _ => unreachable!(),
        }
    }
    fn async_s(&self) -> &AsyncSender<P> {
        match self {
            H::S(s) => s.as_async(),
            H::AS(s) => s,
            _ => unreachable!(),
        }
    }
    fn sync_r(&self) -> &Receiver<P> {
        match self {
            H::R(r) => r,
            H::AR(r) => r.as_sync(),
            _ => unreachable!(),
        }
    }
    fn async_r(&self) -> &AsyncReceiver<P> {
        match self {
            H::R(r) => r.as_async(),
            H::AR(r) => r,
            _ => unreachable!(),
        }
    }
    fn observe(&self) -> Obs {
        macro_rules! obs {
            ($h:expr, $term:expr) => {
                Obs {
                    len: $h.len(),
                    is_empty: $h.is_empty(),
                    is_full: $h.is_full(),
                    capacity: $h.capacity(),
                    is_bounded: $h.is_bounded(),
                    senders: $h.sender_count(),
                    receivers: $h.receiver_count(),
                    is_closed: $h.is_closed(),
                    is_disconnected: $h.is_disconnected(),
                    is_terminated: $term,
                }
            };
        }
        match self {
            H::S(h) => obs!(h, None),
            H::AS(h) => obs!(h, None),
            H::R(h) => obs!(h, Some(h.is_terminated())),
            H::AR(h) => obs!(h, Some(h.is_terminated())),
        }
    }
    fn close(&self) -> Result<(), kanal::CloseError> {
        match self {
            H::S(h) => h.close(),
            H::AS(h) => h.close(),
            H::R(h) => h.close(),
            H::AR(h) => h.close(),
        }
    }
}

pub struct Tables<P> {
    pub handles: Vec<UnsafeCell<Vec<Option<H<P>>>>>,
}
unsafe impl<P: Send> Sync for Tables<P> {}
unsafe impl<P: Send> Send for Tables<P> {}

// ---------------------------------------------------------------------------
// wakers
// ---------------------------------------------------------------------------

/// Harness waker.  Every instance (the harness' own one plus every clone the library
/// makes) is counted, so a wake / clone that goes through an instance the library no
/// longer owns -- a dangling reference into a dropped future -- is detected without
/// relying on where the access hooks sit in the library's source.
pub struct WakerData {
    /// runtime waker ids of the two "faces" (vtable A / vtable B) of this data pointer
    wid_a: u32,
    wid_b: std::sync::atomic::AtomicU32,
    owner: usize,
    total: std::sync::atomic::AtomicI32,
    harness_count: std::sync::atomic::AtomicI32,
}
use std::sync::atomic::Ordering as AO;

fn check_use(a: &WakerData, what: &str) {
    let h = a.harness_count.load(AO::SeqCst);
    let kanal_held = a.total.load(AO::SeqCst) - h;
    let by_owner_in_poll = h > 0 && rt::vid() == a.owner;
    if kanal_held < 1 && !by_owner_in_poll {
        let d = format!(
            "{} on waker {} by thread {} although the library holds no live instance of it (the future that stored it is gone or has replaced it)",
            what,
            a.wid_a,
            rt::vid() as isize
        );
        exec(|e| {
            if e.waker_misuse.len() < 4 {
                e.waker_misuse.push(d)
            }
        });
    }
}
unsafe fn w_clone(p: *const ()) -> RawWaker {
    let a = &*(p as *const WakerData);
    check_use(a, "clone");
    a.total.fetch_add(1, AO::SeqCst);
    Arc::increment_strong_count(p as *const WakerData);
    RawWaker::new(p, &VTABLE)
}
unsafe fn w_clone_b(p: *const ()) -> RawWaker {
    let a = &*(p as *const WakerData);
    check_use(a, "clone");
    a.total.fetch_add(1, AO::SeqCst);
    Arc::increment_strong_count(p as *const WakerData);
    RawWaker::new(p, &VTABLE_B)
}
unsafe fn w_wake(p: *const ()) {
    let a = Arc::from_raw(p as *const WakerData);
    rt::waker_point();
    check_use(&a, "wake");
    rt::waker_wake(a.wid_a);
    a.total.fetch_sub(1, AO::SeqCst);
}
unsafe fn w_wake_b(p: *const ()) {
    let a = Arc::from_raw(p as *const WakerData);
    rt::waker_point();
    check_use(&a, "wake");
    rt::waker_wake(a.wid_b.load(AO::SeqCst));
    a.total.fetch_sub(1, AO::SeqCst);
}
unsafe fn w_wake_by_ref(p: *const ()) {
    let a = &*(p as *const WakerData);
    rt::waker_point();
    check_use(a, "wake_by_ref");
    rt::waker_wake(a.wid_a);
}
unsafe fn w_wake_by_ref_b(p: *const ()) {
    let a = &*(p as *const WakerData);
    rt::waker_point();
    check_use(a, "wake_by_ref");
    rt::waker_wake(a.wid_b.load(AO::SeqCst));
}
unsafe fn w_drop(p: *const ()) {
    let a = Arc::from_raw(p as *const WakerData);
    a.total.fetch_sub(1, AO::SeqCst);
    drop(a);
}
static VTABLE: RawWakerVTable = RawWakerVTable::new(w_clone, w_wake, w_wake_by_ref, w_drop);
/// Same behaviour, different identity: a waker built on this vtable over the same data
/// pointer is a *different* waker for `Waker::will_wake`.
static VTABLE_B: RawWakerVTable = RawWakerVTable::new(w_clone_b, w_wake_b, w_wake_by_ref_b, w_drop);

/// The harness' own instance; dropping it is not a library action.
pub struct HWaker {
    w: Option<Waker>,
    data: Arc<WakerData>,
    face_b: bool,
}
impl std::ops::Deref for HWaker {
    type Target = Waker;
    fn deref(&self) -> &Waker {
        self.w.as_ref().unwrap()
    }
}
impl Drop for HWaker {
    fn drop(&mut self) {
        self.data.harness_count.fetch_sub(1, AO::SeqCst);
        self.w.take();
    }
}
impl HWaker {
    /// A different waker over the same data pointer (other vtable); returns it with its id.
    fn sibling(&self) -> (HWaker, u32) {
        let d = &self.data;
        let to_b = !self.face_b;
        let wid = if to_b {
            let mut w = d.wid_b.load(AO::SeqCst);
            if w == u32::MAX {
                w = rt::new_waker();
                d.wid_b.store(w, AO::SeqCst);
            }
            w
        } else {
            d.wid_a
        };
        d.total.fetch_add(1, AO::SeqCst);
        d.harness_count.fetch_add(1, AO::SeqCst);
        let raw = RawWaker::new(Arc::into_raw(d.clone()) as *const (), if to_b { &VTABLE_B } else { &VTABLE });
        (
            HWaker {
                w: Some(unsafe { Waker::from_raw(raw) }),
                data: d.clone(),
                face_b: to_b,
            },
            wid,
        )
    }
}

fn make_waker() -> (HWaker, u32) {
    let wid = rt::new_waker();
    let a = Arc::new(WakerData {
        wid_a: wid,
        wid_b: std::sync::atomic::AtomicU32::new(u32::MAX),
        owner: rt::vid(),
        total: std::sync::atomic::AtomicI32::new(1),
        harness_count: std::sync::atomic::AtomicI32::new(1),
    });
    // kept alive until the end of the execution so that a dangling use can be examined
    exec(|e| e.waker_keepalive.push(a.clone()));
    let raw = RawWaker::new(Arc::into_raw(a.clone()) as *const (), &VTABLE);
    (
        HWaker {
            w: Some(unsafe { Waker::from_raw(raw) }),
            data: a,
            face_b: false,
        },
        wid,
    )
}

// ---------------------------------------------------------------------------
// op bookkeeping
// ---------------------------------------------------------------------------

fn begin(t: usize, i: usize, op: &Op, k: K, slot: usize, async_handle: bool, implicit: bool) -> u32 {
    let inv = rt::stamp();
    let vt = rt::vnow();
    let gi = exec(|e| {
        e.ops.push(OpRec {
            t: t as u8,
            i: i as u8,
            k,
            slot: slot as u8,
            async_handle,
            a: op.a,
            b: op.b,
            implicit,
            inv,
            ret: 0,
            vt_inv: vt,
            vt_ret: 0,
            sent: None,
            res: Res::Stuck,
            opt_after: None,
            alone_points: None,
            polls: Vec::new(),
            wakers: Vec::new(),
            panicked_after_done: None,
            prefix_ok: None,
            dur_ticks: 0,
            side_send: None,
            after_rescue: false,
            stream_id: 0,
            dropping: false,
        });
        (e.ops.len() - 1) as u32
    });
    CUR_OP.with(|c| c.set(gi));
    gi
}

fn end(gi: u32, res: Res) {
    let ret = rt::stamp();
    let vt = rt::vnow();
    exec(|e| {
        let after = e.rescue_stamp.is_some();
        let o = &mut e.ops[gi as usize];
        o.ret = ret;
        o.vt_ret = vt;
        o.res = res;
        o.after_rescue = after;
    });
    CUR_OP.with(|c| c.set(u32::MAX));
    rt::progress();
}

fn upd(gi: u32, f: impl FnOnce(&mut OpRec)) {
    exec(|e| f(&mut e.ops[gi as usize]));
}

fn se(e: SendError) -> E {
    match e {
        SendError::Closed => E::Closed,
        SendError::ReceiveClosed => E::ReceiveClosed,
    }
}
fn set(e: SendErrorTimeout) -> E {
    match e {
        SendErrorTimeout::Closed => E::Closed,
        SendErrorTimeout::ReceiveClosed => E::ReceiveClosed,
        SendErrorTimeout::Timeout => E::Timeout,
    }
}
fn re(e: ReceiveError) -> E {
    match e {
        ReceiveError::Closed => E::Closed,
        ReceiveError::SendClosed => E::SendClosed,
    }
}
fn ret(e: ReceiveErrorTimeout) -> E {
    match e {
        ReceiveErrorTimeout::Closed => E::Closed,
        ReceiveErrorTimeout::SendClosed => E::SendClosed,
        ReceiveErrorTimeout::Timeout => E::Timeout,
    }
}

/// A value arrived at the harness: verify, record, destroy on the harness' account.
fn took<P: Payload>(gi: u32, v: P) -> u32 {
    let id = v.id();
    let ok = v.verify();
    {
        let mut l = payload::ledger();
        if P::ZST {
            l.zst_received += 1;
        } else if (id as usize) < l.pays.len() && ok {
            l.pays[id as usize].recv_by.push(gi);
        } else {
            l.corrupt_received.push((gi, id));
            if (id as usize) < l.pays.len() {
                l.pays[id as usize].corrupt = true;
            }
        }
    }
    if (id as usize) < payload::ledger().pays.len() || P::ZST {
        harness_drop(v);
    } else {
        // garbage: do not run a destructor on it
        std::mem::forget(v);
    }
    id
}

fn new_payload<P: Payload>(gi: u32) -> P {
    let id = payload::new_id(gi, P::ZST);
    upd(gi, |o| o.sent = Some(id));
    P::make(id)
}

fn dur(a: u8) -> (Duration, u64) {
    let t = DUR[(a as usize * DUR.len()) >> 8];
    (Duration::from_millis(t), t)
}

struct Ctx<P: Payload> {
    t: usize,
    tabs: Arc<Tables<P>>,
    stream: Option<(usize, Pin<Box<ReceiveStream<'static, P>>>, HWaker, u32)>,
    stream_seq: u32,
    bias: u8,
}

impl<P: Payload> Ctx<P> {
    #[allow(clippy::mut_from_ref)]
    fn tab(&self) -> &mut Vec<Option<H<P>>> {
        unsafe { &mut *self.tabs.handles[self.t].get() }
    }

    fn pick(&self, want_send: Option<bool>, h: u8) -> Option<usize> {
        let tab = self.tab();
        let live: Vec<usize> = (0..tab.len())
            .filter(|&i| match (&tab[i], want_send) {
                (Some(x), Some(s)) => x.is_send() == s,
                (Some(_), None) => true,
                _ => false,
            })
            .collect();
        if live.is_empty() {
            None
        } else {
            Some(live[(h as usize * live.len()) >> 8])
        }
    }

    fn drop_stream_if(&mut self, slot: usize) {
        if let Some((s, _, _, _)) = &self.stream {
            if *s == slot {
                let st = self.stream.take();
                drop(st);
            }
        }
    }
}

// ---------------------------------------------------------------------------
// "Safe code may move whatever is Unpin": between two polls the harness moves a future /
// stream to a new heap location whenever its type is `Unpin` (autoref specialisation: the
// by-reference impl with the `Unpin` bound wins when it applies, otherwise the fallback
// leaves the value pinned where it is).  On the unchanged tree both futures are `!Unpin`
// (PhantomPinned) and are never moved; the stream is `Unpin` (it boxes its future) and is
// moved.  A change that makes a future `Unpin` while the waiting list still points into it
// shows up as `uaf` (the old location is retired and quarantined) - C07.
pub struct Mover<F>(pub std::marker::PhantomData<F>);
pub trait MoveIfUnpin<F> {
    fn mv(&self, b: std::pin::Pin<Box<F>>) -> (std::pin::Pin<Box<F>>, bool);
}
impl<F: Unpin> MoveIfUnpin<F> for Mover<F> {
    fn mv(&self, b: std::pin::Pin<Box<F>>) -> (std::pin::Pin<Box<F>>, bool) {
        let old = &*b as *const F as usize;
        let v: F = *std::pin::Pin::into_inner(b);
        let nb = Box::pin(v);
        let new = &*nb as *const F as usize;
        rt::fresh(new, std::mem::size_of::<F>());
        rt::retire_within(old, std::mem::size_of::<F>());
        rt::count_moved();
        (nb, true)
    }
}
pub trait MoveFallback<F> {
    fn mv(&self, b: std::pin::Pin<Box<F>>) -> (std::pin::Pin<Box<F>>, bool);
}
impl<F> MoveFallback<F> for &Mover<F> {
    fn mv(&self, b: std::pin::Pin<Box<F>>) -> (std::pin::Pin<Box<F>>, bool) {
        (b, false)
    }
}
macro_rules! move_if_unpin {
    ($slot:expr, $ty:ty) => {{
        let b = $slot.take().unwrap();
        let (nb, _moved) = (&Mover::<$ty>(std::marker::PhantomData)).mv(b);
        $slot = Some(nb);
    }};
}

enum AsyncOut<T> {
    Ready(T),
    Dropped(u32),
}

struct Poller<'a, T> {
    gi: u32,
    poll: &'a mut dyn FnMut(&Waker) -> Poll<T>,
    npolls: u32,
    fired_seen: u32,
}
impl<T> Poller<'_, T> {
    fn do_poll(&mut self, wk: &Waker, wid: u32) -> Poll<T> {
        let f = rt::waker_fired(wid);
        let spurious = self.npolls > 0 && f == self.fired_seen;
        self.fired_seen = f;
        let st = rt::stamp();
        let r = (self.poll)(wk);
        self.npolls += 1;
        let ready = r.is_ready();
        let en = rt::stamp();
        upd(self.gi, |o| {
            o.polls.push(PollRec {
                stamp: st,
                end: en,
                waker: wid,
                ready,
                spurious,
            })
        });
        r
    }
}

/// Drive one future through its script.  `poll` polls with the given waker.
fn drive<T>(
    gi: u32,
    script: [Step; 4],
    first_waker: Option<(HWaker, u32)>,
    mut poll: impl FnMut(&Waker) -> Poll<T>,
    is_stream: bool,
) -> (AsyncOut<T>, Option<(HWaker, u32)>) {
    if script[0] == Step::Drop {
        upd(gi, |o| o.dropping = true);
        return (AsyncOut::Dropped(0), first_waker);
    }
    let (mut wk, mut wid) = match first_waker {
        Some(x) => x,
        None => make_waker(),
    };
    upd(gi, |o| o.wakers.push(wid));
    let mut p = Poller {
        gi,
        poll: &mut poll,
        npolls: 0,
        fired_seen: rt::waker_fired(wid),
    };
    let mut done: Option<T> = None;
    if let Poll::Ready(v) = p.do_poll(&wk, wid) {
        done = Some(v);
    }
    for step in script.iter() {
        if done.is_some() {
            if *step == Step::PollAfterDone && !is_stream {
                let r = catch_unwind(AssertUnwindSafe(|| {
                    let _ = (p.poll)(&wk);
                }));
                upd(gi, |o| o.panicked_after_done = Some(r.is_err()));
            }
            break;
        }
        match step {
            Step::Await => break,
            Step::PollSame => {
                if let Poll::Ready(v) = p.do_poll(&wk, wid) {
                    done = Some(v);
                }
            }
            Step::PollNew => {
                let (w2, id2) = make_waker();
                wk = w2;
                wid = id2;
                upd(gi, |o| o.wakers.push(wid));
                p.fired_seen = 0;
                if let Poll::Ready(v) = p.do_poll(&wk, wid) {
                    done = Some(v);
                }
            }
            Step::PollSibling => {
                let (w2, id2) = wk.sibling();
                wk = w2;
                wid = id2;
                upd(gi, |o| o.wakers.push(wid));
                p.fired_seen = rt::waker_fired(wid);
                if let Poll::Ready(v) = p.do_poll(&wk, wid) {
                    done = Some(v);
                }
            }
            Step::WaitPoll => {
                rt::wait_waker(wid);
                if let Poll::Ready(v) = p.do_poll(&wk, wid) {
                    done = Some(v);
                }
            }
            Step::Yield(n) => rt::yield_points(*n),
            Step::Drop => {
                upd(gi, |o| o.dropping = true);
                return (AsyncOut::Dropped(p.npolls), Some((wk, wid)));
            }
            Step::PollAfterDone => {}
        }
    }
    loop {
        if let Some(v) = done {
            return (AsyncOut::Ready(v), Some((wk, wid)));
        }
        rt::wait_waker(wid);
        if let Poll::Ready(v) = p.do_poll(&wk, wid) {
            done = Some(v);
        }
    }
}

fn run_op<P: Payload>(cx: &mut Ctx<P>, i: usize, op: Op) {
    let t = cx.t;
    let want = if op.k.is_send() {
        Some(true)
    } else if op.k.is_recv() {
        Some(false)
    } else {
        None
    };
    if op.k == K::Yield {
        rt::yield_points((op.a % 8) as u32 + 1);
        return;
    }
    if op.k == K::Skip {
        return;
    }
    // raw integer payloads carry their identity in 6 bits: stop creating values before it wraps
    let ids_left = |need: usize| -> bool { P::DROPPABLE || P::ZST || payload::ledger().pays.len() + need <= 60 };
    if (op.k.is_send() && !ids_left(1)) || (op.k == K::Drain && !ids_left(3)) {
        let gi = begin(t, i, &op, K::Skip, 255, false, false);
        end(gi, Res::Skip);
        return;
    }
    let slot = match cx.pick(want, op.h) {
        Some(s) => s,
        None => {
            let gi = begin(t, i, &op, K::Skip, 255, false, false);
            end(gi, Res::Skip);
            return;
        }
    };
    let is_async_h = cx.tab()[slot].as_ref().unwrap().is_async();
    let mut k = op.k;
    if k == K::IterNext && is_async_h {
        k = K::Recv;
    }
    let gi = begin(t, i, &op, k, slot, is_async_h, false);
    let res = catch_unwind(AssertUnwindSafe(|| exec_op(cx, gi, slot, k, op)));
    match res {
        Ok(r) => end(gi, r),
        Err(p) => {
            let msg = if let Some(s) = p.downcast_ref::<&str>() {
                s.to_string()
            } else if let Some(s) = p.downcast_ref::<String>() {
                s.clone()
            } else {
                "panic".into()
            };
            end(gi, Res::Panic(msg))
        }
    }
}

fn exec_op<P: Payload>(cx: &mut Ctx<P>, gi: u32, slot: usize, k: K, op: Op) -> Res {
    // NB: `h` borrows the table; ops that modify the table re-borrow below.
    match k {
        K::Send => {
            let v = new_payload::<P>(gi);
            let h = cx.tab()[slot].as_ref().unwrap();
            match h.sync_s().send(v) {
                Ok(()) => Res::Unit,
                Err(e) => Res::Err(se(e)),
            }
        }
        K::SendTimeout => {
            let v = new_payload::<P>(gi);
            let (d, ticks) = dur(op.a);
            upd(gi, |o| o.dur_ticks = ticks);
            let h = cx.tab()[slot].as_ref().unwrap();
            match h.sync_s().send_timeout(v, d) {
                Ok(()) => Res::Unit,
                Err(e) => Res::Err(set(e)),
            }
        }
        K::SendOptTimeout => {
            let mut o = Some(new_payload::<P>(gi));
            let (d, ticks) = dur(op.a);
            upd(gi, |r| r.dur_ticks = ticks);
            let h = cx.tab()[slot].as_ref().unwrap();
            let r = h.sync_s().send_option_timeout(&mut o, d);
            finish_opt(gi, o);
            match r {
                Ok(()) => Res::Unit,
                Err(e) => Res::Err(set(e)),
            }
        }
        K::TrySend | K::TrySendRt => {
            let v = new_payload::<P>(gi);
            let h = cx.tab()[slot].as_ref().unwrap();
            let r = match (k, h) {
                (K::TrySend, H::S(s)) => s.try_send(v),
                (K::TrySend, H::AS(s)) => s.try_send(v),
                (K::TrySendRt, H::S(s)) => alone(gi, op.a, || s.try_send_realtime(v)),
                (K::TrySendRt, H::AS(s)) => alone(gi, op.a, || s.try_send_realtime(v)),
                _ => unreachable!(),
            };
            match r {
                Ok(b) => Res::Bool(b),
                Err(e) => Res::Err(se(e)),
            }
        }
        K::TrySendOpt | K::TrySendOptRt => {
            let mut o = Some(new_payload::<P>(gi));
            let h = cx.tab()[slot].as_ref().unwrap();
            let r = match (k, h) {
                (K::TrySendOpt, H::S(s)) => s.try_send_option(&mut o),
                (K::TrySendOpt, H::AS(s)) => s.try_send_option(&mut o),
                (K::TrySendOptRt, H::S(s)) => alone(gi, op.a, || s.try_send_option_realtime(&mut o)),
                (K::TrySendOptRt, H::AS(s)) => alone(gi, op.a, || s.try_send_option_realtime(&mut o)),
                _ => unreachable!(),
            };
            finish_opt(gi, o);
            match r {
                Ok(b) => Res::Bool(b),
                Err(e) => Res::Err(se(e)),
            }
        }
        K::AsyncSend => {
            let v = new_payload::<P>(gi);
            let h = cx.tab()[slot].as_ref().unwrap();
            let fut = h.async_s().send(v);
            // Safety: the handle lives in a Box that is neither moved nor dropped while
            // this future exists (it is consumed before this function returns).
            let fut: kanal::SendFuture<'static, P> = unsafe { std::mem::transmute(fut) };
            let fut = Box::pin(fut);
            rt::fresh(
                &*fut as *const _ as usize,
                std::mem::size_of::<kanal::SendFuture<'static, P>>(),
            );
            let mut fut = Some(fut);
            let mut polled = false;
            let script = decode_script(op.a, op.b, cx.bias);
            let (out, _) = drive(
                gi,
                script,
                None,
                |w| {
                    if polled {
                        move_if_unpin!(fut, kanal::SendFuture<'static, P>);
                    }
                    polled = true;
                    fut.as_mut().unwrap().as_mut().poll(&mut Context::from_waker(w))
                },
                false,
            );
            match out {
                AsyncOut::Ready(Ok(())) => Res::Unit,
                AsyncOut::Ready(Err(e)) => Res::Err(se(e)),
                AsyncOut::Dropped(n) => {
                    drop(fut);
                    Res::Dropped(n)
                }
            }
        }
        K::Recv => {
            let h = cx.tab()[slot].as_ref().unwrap();
            match h.sync_r().recv() {
                Ok(v) => Res::Val(took(gi, v)),
                Err(e) => Res::Err(re(e)),
            }
        }
        K::IterNext => {
            let h = cx.tab()[slot].as_mut().unwrap();
            let r = match h {
                H::R(r) => r.next(),
                _ => unreachable!(),
            };
            match r {
                Some(v) => Res::Val(took(gi, v)),
                None => Res::End,
            }
        }
        K::RecvTimeout => {
            let (d, ticks) = dur(op.a);
            upd(gi, |o| o.dur_ticks = ticks);
            let h = cx.tab()[slot].as_ref().unwrap();
            match h.sync_r().recv_timeout(d) {
                Ok(v) => Res::Val(took(gi, v)),
                Err(e) => Res::Err(ret(e)),
            }
        }
        K::TryRecv | K::TryRecvRt => {
            let h = cx.tab()[slot].as_ref().unwrap();
            let r = match (k, h) {
                (K::TryRecv, H::R(r)) => r.try_recv(),
                (K::TryRecv, H::AR(r)) => r.try_recv(),
                (K::TryRecvRt, H::R(r)) => alone(gi, op.a, || r.try_recv_realtime()),
                (K::TryRecvRt, H::AR(r)) => alone(gi, op.a, || r.try_recv_realtime()),
                _ => unreachable!(),
            };
            match r {
                Ok(Some(v)) => Res::Val(took(gi, v)),
                Ok(None) => Res::NoneV,
                Err(e) => Res::Err(re(e)),
            }
        }
        K::Drain => {
            let nsent = (op.b % 4) as usize;
            let mode = op.a % 4;
            let mut vec: Vec<P> = match mode {
                0 => Vec::new(),
                1 => Vec::with_capacity(8),
                2 => Vec::with_capacity(nsent),
                _ => Vec::with_capacity(nsent + 2),
            };
            let mut sentinels = Vec::new();
            if mode >= 2 {
                for _ in 0..nsent {
                    let id = payload::new_id(gi, P::ZST);
                    if !P::ZST {
                        payload::ledger().pays[id as usize].returned = true;
                    }
                    sentinels.push(id);
                    vec.push(P::make(id));
                }
            }
            let h = cx.tab()[slot].as_ref().unwrap();
            let r = match h {
                H::R(r) => r.drain_into(&mut vec),
                H::AR(r) => r.drain_into(&mut vec),
                _ => unreachable!(),
            };
            let mut prefix_ok = vec.len() >= sentinels.len();
            let mut ids = Vec::new();
            let mut it = vec.into_iter();
            for s in sentinels.iter() {
                match it.next() {
                    Some(v) => {
                        if !(P::ZST || (v.id() == *s && v.verify())) {
                            prefix_ok = false;
                        }
                        harness_drop(v);
                    }
                    None => prefix_ok = false,
                }
            }
            if P::ZST && !sentinels.is_empty() {
                // sentinel ZSTs were counted as created: balance them as harness-owned
                payload::ledger().zst_created -= sentinels.len() as u32;
                payload::ledger().zst_dropped_by_harness -= sentinels.len() as u32;
            }
            for v in it {
                ids.push(took(gi, v));
            }
            upd(gi, |o| o.prefix_ok = Some(prefix_ok));
            match r {
                Ok(n) => Res::Count(n, ids),
                Err(e) => {
                    if !ids.is_empty() {
                        // values appended although an error was reported
                        upd(gi, |o| o.prefix_ok = Some(false));
                    }
                    Res::Err(re(e))
                }
            }
        }
        K::AsyncRecv => {
            let h = cx.tab()[slot].as_ref().unwrap();
            let fut = h.async_r().recv();
            let fut: kanal::ReceiveFuture<'static, P> = unsafe { std::mem::transmute(fut) };
            let fut = Box::pin(fut);
            rt::fresh(
                &*fut as *const _ as usize,
                std::mem::size_of::<kanal::ReceiveFuture<'static, P>>(),
            );
            let mut fut = Some(fut);
            let mut polled = false;
            let script = decode_script(op.a, op.b, cx.bias);
            let (out, _) = drive(
                gi,
                script,
                None,
                |w| {
                    if polled {
                        move_if_unpin!(fut, kanal::ReceiveFuture<'static, P>);
                    }
                    polled = true;
                    fut.as_mut().unwrap().as_mut().poll(&mut Context::from_waker(w))
                },
                false,
            );
            match out {
                AsyncOut::Ready(Ok(v)) => Res::Val(took(gi, v)),
                AsyncOut::Ready(Err(e)) => Res::Err(re(e)),
                AsyncOut::Dropped(n) => {
                    drop(fut);
                    Res::Dropped(n)
                }
            }
        }
        K::StreamNext => {
            use futures_core::Stream;
            if cx.stream.as_ref().map(|s| s.0 != slot).unwrap_or(false) {
                let st = cx.stream.take();
                drop(st);
            }
            let created = cx.stream.is_none();
            if cx.stream.is_none() {
                let h = cx.tab()[slot].as_ref().unwrap();
                let st = h.async_r().stream();
                let st: ReceiveStream<'static, P> = unsafe { std::mem::transmute(st) };
                let (w, wid) = make_waker();
                cx.stream = Some((slot, Box::pin(st), w, wid));
                cx.stream_seq += 1;
            }
            let sid = (cx.t as u32) * 100 + cx.stream_seq;
            upd(gi, |o| o.stream_id = sid);
            let (s_slot, st, mut w, mut wid) = cx.stream.take().unwrap();
            if !created && op.h & 3 == 3 {
                // the stream changes hands between two items: this wait starts with a waker the
                // stream has never seen (the previous wait's waker must not be the one registered)
                let (w2, id2) = make_waker();
                w = w2;
                wid = id2;
                rt::count_stream_handed_over();
            }
            let mut st = Some(st);
            let script = decode_script(op.a, op.b, cx.bias);
            let (out, wk) = drive(
                gi,
                script,
                Some((w, wid)),
                |w| {
                    // a stream that is `Unpin` may be moved between any two polls
                    move_if_unpin!(st, ReceiveStream<'static, P>);
                    st.as_mut().unwrap().as_mut().poll_next(&mut Context::from_waker(w))
                },
                true,
            );
            let st = st.unwrap();
            match out {
                AsyncOut::Ready(Some(v)) => {
                    let (w, wid) = wk.unwrap();
                    cx.stream = Some((s_slot, st, w, wid));
                    Res::Val(took(gi, v))
                }
                AsyncOut::Ready(None) => {
                    let (w, wid) = wk.unwrap();
                    cx.stream = Some((s_slot, st, w, wid));
                    Res::End
                }
                AsyncOut::Dropped(n) => {
                    drop(st);
                    Res::Dropped(n)
                }
            }
        }
        K::StreamDrop => {
            let st = cx.stream.take();
            drop(st);
            Res::Done
        }
        K::CloneH => {
            let h = cx.tab()[slot].as_ref().unwrap();
            let cross = op.a % 3 == 1;
            let n = match (h, cross) {
                (H::S(s), false) => H::S(Box::new((**s).clone())),
                (H::S(s), true) => H::AS(Box::new(s.clone_async())),
                (H::AS(s), false) => H::AS(Box::new((**s).clone())),
                (H::AS(s), true) => H::S(Box::new(s.clone_sync())),
                (H::R(r), false) => H::R(Box::new((**r).clone())),
                (H::R(r), true) => H::AR(Box::new(r.clone_async())),
                (H::AR(r), false) => H::AR(Box::new((**r).clone())),
                (H::AR(r), true) => H::R(Box::new(r.clone_sync())),
            };
            let side = n.is_send();
            upd(gi, |o| o.side_send = Some(side));
            cx.tab().push(Some(n));
            Res::Done
        }
        K::ConvertH => {
            cx.drop_stream_if(slot);
            let h = cx.tab()[slot].take().unwrap();
            let n = match h {
                H::S(s) => H::AS(Box::new((*s).to_async())),
                H::AS(s) => H::S(Box::new((*s).to_sync())),
                H::R(r) => H::AR(Box::new((*r).to_async())),
                H::AR(r) => H::R(Box::new((*r).to_sync())),
            };
            cx.tab()[slot] = Some(n);
            Res::Done
        }
        K::DropH => {
            cx.drop_stream_if(slot);
            let h = cx.tab()[slot].take().unwrap();
            let side = h.is_send();
            upd(gi, |o| o.side_send = Some(side));
            drop(h);
            Res::Done
        }
        K::Close => {
            let h = cx.tab()[slot].as_ref().unwrap();
            match h.close() {
                Ok(()) => Res::Unit,
                Err(_) => Res::Err(E::CloseErr),
            }
        }
        K::Observe => {
            let h = cx.tab()[slot].as_ref().unwrap();
            let side = h.is_send();
            upd(gi, |o| o.side_send = Some(side));
            Res::Obs(h.observe())
        }
        K::Yield | K::Skip => Res::Skip,
    }
}

fn alone<R>(gi: u32, a: u8, f: impl FnOnce() -> R) -> R {
    if a & 1 == 1 {
        // the first (a >> 1) % 32 points are scheduled normally (a peer may slip in anywhere inside
        // the call), then everybody else is suspended
        let (r, pts) = rt::run_alone_after(((a >> 1) % 32) as u32, f);
        upd(gi, |o| o.alone_points = Some(pts));
        r
    } else {
        f()
    }
}

fn finish_opt<P: Payload>(gi: u32, o: Option<P>) {
    let some = o.is_some();
    upd(gi, |r| r.opt_after = Some(some));
    if let Some(v) = o {
        let id = v.id();
        {
            let mut l = payload::ledger();
            if !P::ZST && (id as usize) < l.pays.len() {
                l.pays[id as usize].returned = true;
            }
        }
        harness_drop(v);
    }
}

fn thread_body<P: Payload>(t: usize, ops: Vec<Op>, tabs: Arc<Tables<P>>, bias: u8) {
    let mut cx = Ctx {
        t,
        tabs,
        stream: None,
        stream_seq: 0,
        bias,
    };
    for (i, op) in ops.into_iter().enumerate() {
        if exec(|e| e.rescued) {
            break;
        }
        rt::op_point();
        run_op(&mut cx, i, op);
    }
    // end of thread: drop the stream, then every remaining handle in slot order
    let st = cx.stream.take();
    drop(st);
    let n = cx.tab().len();
    for slot in 0..n {
        if cx.tab()[slot].is_some() {
            rt::op_point();
            let op = Op {
                k: K::DropH,
                h: 0,
                a: 0,
                b: 0,
            };
            let is_async = cx.tab()[slot].as_ref().unwrap().is_async();
            let gi = begin(t, 200 + slot, &op, K::DropH, slot, is_async, true);
            let h = cx.tab()[slot].take().unwrap();
            let side = h.is_send();
            upd(gi, |o| o.side_send = Some(side));
            drop(h);
            end(gi, Res::Done);
        }
    }
}

/// The low-priority thread: generated probe operations at quiescent points, the
/// final observation, and the rescue of stuck threads.
fn prober_body<P: Payload>(t: usize, ops: Vec<Op>, tabs: Arc<Tables<P>>) {
    let borrow = |want_send: Option<bool>, h: u8| -> Option<&H<P>> {
        let mut all: Vec<&H<P>> = Vec::new();
        for tt in 0..tabs.handles.len() {
            if tt == t {
                continue;
            }
            let tab = unsafe { &*tabs.handles[tt].get() };
            for x in tab.iter().flatten() {
                if want_send.map(|s| x.is_send() == s).unwrap_or(true) {
                    all.push(x);
                }
            }
        }
        if all.is_empty() {
            None
        } else {
            Some(all[(h as usize * all.len()) >> 8])
        }
    };
    // quiescent probes
    for (i, op) in ops.into_iter().enumerate() {
        rt::op_point(); // returns only when nobody else can run
        let want = if op.k.is_send() {
            Some(true)
        } else if op.k.is_recv() {
            Some(false)
        } else {
            None
        };
        if op.k.is_send() && !(P::DROPPABLE || P::ZST || payload::ledger().pays.len() < 60) {
            continue;
        }
        let Some(h) = borrow(want, op.h) else { continue };
        let gi = begin(t, i, &op, op.k, 254, h.is_async(), false);
        let r = catch_unwind(AssertUnwindSafe(|| {
            rt::run_alone(|| -> Res {
                match op.k {
                    K::Observe => {
                        let side = h.is_send();
                        upd(gi, |o| o.side_send = Some(side));
                        Res::Obs(h.observe())
                    }
                    K::TrySend => {
                        let v = new_payload::<P>(gi);
                        let r = match h {
                            H::S(s) => s.try_send(v),
                            H::AS(s) => s.try_send(v),
                            _ => unreachable!(),
                        };
                        match r {
                            Ok(b) => Res::Bool(b),
                            Err(e) => Res::Err(se(e)),
                        }
                    }
                    K::TrySendOpt => {
                        let mut o = Some(new_payload::<P>(gi));
                        let r = match h {
                            H::S(s) => s.try_send_option(&mut o),
                            H::AS(s) => s.try_send_option(&mut o),
                            _ => unreachable!(),
                        };
                        finish_opt(gi, o);
                        match r {
                            Ok(b) => Res::Bool(b),
                            Err(e) => Res::Err(se(e)),
                        }
                    }
                    K::TryRecv => {
                        let r = match h {
                            H::R(r) => r.try_recv(),
                            H::AR(r) => r.try_recv(),
                            _ => unreachable!(),
                        };
                        match r {
                            Ok(Some(v)) => Res::Val(took(gi, v)),
                            Ok(None) => Res::NoneV,
                            Err(e) => Res::Err(re(e)),
                        }
                    }
                    K::Drain => {
                        let mut vec: Vec<P> = Vec::new();
                        let r = match h {
                            H::R(r) => r.drain_into(&mut vec),
                            H::AR(r) => r.drain_into(&mut vec),
                            _ => unreachable!(),
                        };
                        let ids: Vec<u32> = vec.into_iter().map(|v| took(gi, v)).collect();
                        upd(gi, |o| o.prefix_ok = Some(true));
                        match r {
                            Ok(n) => Res::Count(n, ids),
                            Err(e) => Res::Err(re(e)),
                        }
                    }
                    _ => Res::Skip,
                }
            })
            .0
        }));
        match r {
            Ok(res) => end(gi, res),
            Err(_) => end(gi, Res::Panic("panic in prober op".into())),
        }
    }
    // final quiescent point
    rt::op_point();
    let states = rt::thread_states();
    let stuck: Vec<usize> = (0..states.len())
        .filter(|&i| i != t && states[i] != rt::St::Finished)
        .collect();
    if let Some(h) = borrow(None, 0) {
        let (o, _) = rt::run_alone(|| h.observe());
        let st = rt::stamp();
        exec(|e| {
            e.final_obs = Some(o);
            e.final_obs_stamp = st;
        });
    }
    if stuck.is_empty() {
        return;
    }
    // record who is stuck and in which op
    exec(|e| {
        for &s in &stuck {
            let cur = e
                .ops
                .iter()
                .enumerate()
                .rev()
                .find(|(_, o)| o.t as usize == s && o.ret == 0)
                .map(|(i, _)| i as u32)
                .unwrap_or(u32::MAX);
            e.stuck.push((s as u8, cur, format!("{:?}", states[s])));
        }
        e.rescue_stamp = Some(rt::stamp());
        e.rescued = true;
    });
    // rescue 1: close the channel through a borrowed handle
    if let Some(h) = borrow(None, 0) {
        let (r, _) = rt::run_alone(|| h.close());
        exec(|e| {
            e.rescue_close = Some(match r {
                Ok(()) => Res::Unit,
                Err(_) => Res::Err(E::CloseErr),
            })
        });
    }
    rt::op_point();
    let states = rt::thread_states();
    let still: Vec<u8> = (0..states.len())
        .filter(|&i| i != t && states[i] != rt::St::Finished)
        .map(|i| i as u8)
        .collect();
    if still.is_empty() {
        return;
    }
    exec(|e| e.still_stuck_after_close = still);
    // rescue 2: spurious wake-ups for everybody
    rt::force_wake_all();
    rt::op_point();
    // whoever is still blocked now is abandoned by the runtime
}

pub struct RunOut {
    pub outcome: rt::Outcome,
    pub exec: Exec,
    pub ledger: payload::Ledger,
}

/// Build the channel, distribute handles, run all threads to the end.
pub fn run_program<P: Payload>(prog: &Program) -> RunOut {
    payload::reset(prog.salt as u64);
    *EXEC.lock().unwrap_or_else(|e| e.into_inner()) = Some(Exec::default());
    let nt = prog.threads.len();
    // setup on the (unmanaged) controller thread: hooks are pass-through here
    let mut tabs: Vec<Vec<Option<H<P>>>> = (0..=nt).map(|_| Vec::new()).collect();
    let (mut live_s, mut live_r) = (0i32, 0i32);
    macro_rules! distribute {
        ($s:expr, $r:expr, $S:ident, $AS:ident, $R:ident, $AR:ident, $cs:ident, $cr:ident) => {{
            let (s, r) = ($s, $r);
            for (i, g) in prog.grants.iter().enumerate() {
                if g.send & 1 != 0 {
                    tabs[i].push(Some(H::S(Box::new(s.$cs()))));
                    live_s += 1;
                }
                if g.send & 2 != 0 {
                    tabs[i].push(Some(H::AS(Box::new(s.$cr()))));
                    live_s += 1;
                }
                if g.recv & 1 != 0 {
                    tabs[i].push(Some(H::R(Box::new(r.$cs()))));
                    live_r += 1;
                }
                if g.recv & 2 != 0 {
                    tabs[i].push(Some(H::AR(Box::new(r.$cr()))));
                    live_r += 1;
                }
            }
            drop(s);
            drop(r);
        }};
    }
    match (prog.cap, prog.async_ctor) {
        (Cap::N(n), false) => {
            let (s, r) = kanal::bounded::<P>(n);
            distribute!(s, r, S, AS, R, AR, clone, clone_async)
        }
        (Cap::Unbounded, false) => {
            let (s, r) = kanal::unbounded::<P>();
            distribute!(s, r, S, AS, R, AR, clone, clone_async)
        }
        (Cap::N(n), true) => {
            let (s, r) = kanal::bounded_async::<P>(n);
            distribute!(s, r, S, AS, R, AR, clone_sync, clone)
        }
        (Cap::Unbounded, true) => {
            let (s, r) = kanal::unbounded_async::<P>();
            distribute!(s, r, S, AS, R, AR, clone_sync, clone)
        }
    }
    exec(|e| {
        e.live_send = live_s;
        e.live_recv = live_r;
    });
    let tabs = Arc::new(Tables {
        handles: tabs.into_iter().map(UnsafeCell::new).collect(),
    });
    // re-entrant payloads: their destructor calls len() on some live handle of this channel
    {
        let mut g = payload::REENTRY.lock().unwrap_or_else(|e| e.into_inner());
        *g = None;
        if P::REENTRANT {
            let tb = tabs.clone();
            *g = Some(Arc::new(move || {
                for cell in tb.handles.iter() {
                    // read-only peek; one virtual thread runs at a time
                    let tab = unsafe { &*cell.get() };
                    for h in tab.iter().flatten() {
                        let _ = match h {
                            H::S(x) => x.len(),
                            H::AS(x) => x.len(),
                            H::R(x) => x.len(),
                            H::AR(x) => x.len(),
                        };
                        return;
                    }
                }
            }));
        }
    }
    let mut bodies: Vec<Box<dyn FnOnce() + Send>> = Vec::new();
    for (t, ops) in prog.threads.iter().enumerate() {
        let ops = ops.clone();
        let tb = tabs.clone();
        let bias = prog.script_bias;
        bodies.push(Box::new(move || thread_body::<P>(t, ops, tb, bias)));
    }
    {
        let ops = prog.prober.clone();
        let tb = tabs.clone();
        bodies.push(Box::new(move || prober_body::<P>(nt, ops, tb)));
    }
    let outcome = rt::run(
        rt::Config {
            sched: prog.sched.clone(),
            parallelism: prog.parallelism,
            step_budget: 0,
            livelock_yields: 0,
        },
        bodies,
    );
    *payload::REENTRY.lock().unwrap_or_else(|e| e.into_inner()) = None;
    // teardown: on a complete run every handle is already gone; otherwise leak.
    if outcome.end == rt::End::Complete {
        match Arc::try_unwrap(tabs) {
            Ok(t) => drop(t),
            Err(a) => std::mem::forget(a),
        }
    } else {
        std::mem::forget(tabs);
    }
    let exec = EXEC
        .lock()
        .unwrap_or_else(|e| e.into_inner())
        .take()
        .unwrap();
    let ledger = std::mem::take(&mut *payload::ledger());
    RunOut {
        outcome,
        exec,
        ledger,
    }
}

pub fn run_any(prog: &Program) -> RunOut {
    use payload::*;
    match prog.pay {
        Pay::Z0 => run_program::<Z0>(prog),
        Pay::ZA => run_program::<ZA>(prog),
        Pay::P1 => run_program::<P1>(prog),
        Pay::P3 => run_program::<P3>(prog),
        Pay::P5 => run_program::<P5>(prog),
        Pay::P6 => run_program::<P6>(prog),
        Pay::P7 => run_program::<P7>(prog),
        Pay::P4 => run_program::<P4>(prog),
        Pay::P8 => run_program::<P8>(prog),
        Pay::P16 => run_program::<P16>(prog),
        Pay::P40 => run_program::<P40>(prog),
        Pay::PR => run_program::<PR>(prog),
        Pay::U8 => run_program::<u8>(prog),
        Pay::U16 => run_program::<u16>(prog),
        Pay::U32 => run_program::<u32>(prog),
        Pay::U64 => run_program::<u64>(prog),
        Pay::U128 => run_program::<u128>(prog),
        Pay::PB => run_program::<PB>(prog),
        Pay::PBIG => run_program::<PBIG>(prog),
        Pay::PHUGE => run_program::<PHUGE>(prog),
        Pay::PA64 => run_program::<PA64>(prog),
        Pay::PH => run_program::<PH>(prog),
    }
}
