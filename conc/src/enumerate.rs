//! C15 fault enumeration: for a fixed family of two-thread scenarios (owner of a send /
//! receive future or stream x kind of peer x capacity x payload size) EVERY pair
//! (i, j) is executed, where the owner runs i scheduling steps (before, inside and after
//! its first poll), then the peer runs j steps of its own operation (before the claim,
//! between claim and completion, after it), then the owner resumes and drops the future.
//! The remaining execution follows the fair tail.

use crate::props;
use crate::run_case;
use common::driver::{self, CaseOut};
use common::ops::*;
use serde_json::json;

fn byte_for(p: &Profile, k: K) -> u8 {
    (0..=255u8)
        .find(|b| {
            let c = Case {
                cfg: [0; 6],
                threads: vec![vec![[*b, 0, 0, 0]], vec![]],
                prober: vec![],
                sched: vec![],
            };
            c.decode(p).threads[0][0].k == k
        })
        .unwrap_or_else(|| panic!("kind {:?} not reachable in profile", k))
}

fn cfg_byte_for<T: PartialEq>(n: usize, want: usize, _t: T) -> u8 {
    (0..=255u8).find(|b| ((*b as usize) * n) >> 8 == want).unwrap()
}

pub struct Scenario {
    pub owner: K,
    pub peer: Vec<K>,
    pub cap: Cap,
    pub pay: Pay,
    /// C14 family: further steps the peer makes after the owner's first i steps, before it is
    /// frozen for good (so that it can slip into a window inside the owner's call)
    pub extra: u32,
}

pub fn scenarios(prop: &str) -> Vec<Scenario> {
    if prop == "C07" {
        // memory safety of the hand-off: all three families (park transition, deadline expiry,
        // future cancellation), with payload classes of C07's own profile
        let mut v: Vec<Scenario> = Vec::new();
        for fam in ["C06", "C13", "C15"] {
            for mut sc in scenarios(fam) {
                // a payload without destructor must be among them (needs_drop::<T>() == false paths)
                sc.pay = match sc.pay {
                    Pay::P4 => Pay::P8,
                    Pay::Z0 => Pay::U64,
                    x => x,
                };
                if fam != "C13" && sc.cap == Cap::N(1) && sc.pay == Pay::P16 {
                    sc.pay = Pay::U128;
                }
                v.push(sc);
            }
        }
        return v;
    }
    let mut v = Vec::new();
    if prop == "C14" {
        // a peer frozen at every point inside its own operation: the peer makes j steps, then
        // the non-blocking operation runs (realtime variants: its first i steps scheduled
        // normally, the rest with everybody else suspended)
        for cap in [Cap::N(0), Cap::N(1)] {
            for pay in [Pay::P4, Pay::P16] {
                for owner in [K::TrySendRt, K::TrySendOptRt, K::TryRecvRt, K::TrySend, K::TryRecv, K::Drain] {
                    for peer in [
                        vec![K::Send],
                        vec![K::Recv],
                        vec![K::AsyncSend],
                        vec![K::AsyncRecv],
                        vec![K::SendTimeout],
                        vec![K::RecvTimeout],
                        vec![K::TrySend, K::TryRecv],
                        vec![K::Drain],
                        vec![K::Close],
                        vec![K::DropH, K::DropH],
                        vec![K::CloneH, K::Observe],
                    ] {
                        for extra in [0u32, 5, 11] {
                            if extra > 0 && !owner.is_rt() {
                                continue;
                            }
                            v.push(Scenario { owner, peer: peer.clone(), cap, pay, extra });
                        }
                    }
                }
            }
        }
        return v;
    }
    if prop == "C06" {
        // spin-then-park transition: the owner blocks, spins to the end of its spin phase, makes
        // i more steps (storing its thread handle, announcing that it parks, parking), then the
        // peer makes j steps of the operation that must release it
        for cap in [Cap::N(0), Cap::N(1)] {
            for pay in [Pay::P4, Pay::P16] {
                for peer in [
                    vec![K::Send],
                    vec![K::TrySend, K::TrySend],
                    vec![K::SendTimeout],
                    vec![K::AsyncSend],
                    vec![K::Close],
                    vec![K::DropH, K::DropH],
                    vec![K::TrySendRt, K::TrySendRt],
                ] {
                    v.push(Scenario { owner: K::Recv, peer, cap, pay, extra: 0 });
                }
                for peer in [
                    vec![K::Recv],
                    vec![K::TryRecv, K::TryRecv],
                    vec![K::RecvTimeout],
                    vec![K::AsyncRecv],
                    vec![K::Drain],
                    vec![K::Close],
                    vec![K::DropH, K::DropH],
                ] {
                    v.push(Scenario { owner: K::Send, peer, cap, pay, extra: 0 });
                }
            }
        }
        return v;
    }
    if prop == "C13" {
        // timed operations: the deadline expires (clock jump) after the owner made i steps
        // and the peer j steps of its own operation
        for cap in [Cap::N(0), Cap::N(1)] {
            for pay in [Pay::P4, Pay::P16, Pay::Z0] {
                for owner in [K::SendTimeout, K::SendOptTimeout] {
                    for peer in [
                        vec![K::Recv],
                        vec![K::TryRecv, K::TryRecv],
                        vec![K::RecvTimeout],
                        vec![K::Drain],
                        vec![K::AsyncRecv],
                        vec![K::Close],
                        vec![K::DropH, K::DropH],
                    ] {
                        v.push(Scenario { owner, peer, cap, pay, extra: 0 });
                    }
                }
                for peer in [
                    vec![K::Send],
                    vec![K::TrySend, K::TrySend],
                    vec![K::SendTimeout],
                    vec![K::AsyncSend],
                    vec![K::Close],
                    vec![K::DropH, K::DropH],
                ] {
                    v.push(Scenario { owner: K::RecvTimeout, peer, cap, pay, extra: 0 });
                }
            }
        }
        return v;
    }
    for cap in [Cap::N(0), Cap::N(1)] {
        for pay in [Pay::P4, Pay::P16] {
            for peer in [
                vec![K::Recv],
                vec![K::TryRecv, K::TryRecv],
                vec![K::RecvTimeout],
                vec![K::Drain],
                vec![K::AsyncRecv],
                vec![K::Close],
                vec![K::Recv, K::Recv],
            ] {
                v.push(Scenario { owner: K::AsyncSend, peer, cap, pay, extra: 0 });
            }
            for owner in [K::AsyncRecv, K::StreamNext] {
                for peer in [
                    vec![K::Send],
                    vec![K::TrySend, K::TrySend],
                    vec![K::SendTimeout],
                    vec![K::AsyncSend],
                    vec![K::Close],
                    vec![K::Send, K::Send],
                ] {
                    v.push(Scenario { owner, peer, cap, pay, extra: 0 });
                }
            }
        }
    }
    v
}

pub fn build_case(p: &Profile, sc: &Scenario, i: u32, j: u32) -> Case {
    let capi = p.caps.iter().position(|c| *c == sc.cap).expect("cap in profile");
    let payi = p.pays.iter().position(|c| *c == sc.pay).expect("payload in profile");
    let mut cfg = [0u8; 6];
    cfg[0] = cfg_byte_for(p.caps.len(), capi, 0);
    cfg[1] = 0; // sync constructor, parallelism 16
    cfg[2] = cfg_byte_for(p.pays.len(), payi, 0);
    // both threads own a sync sender and a sync receiver (async views are borrowed)
    cfg[3] = 0x55;
    cfg[4] = 0;
    cfg[5] = (i as u8).wrapping_mul(31).wrapping_add(j as u8);
    // owner: first poll, Yield(2), Drop  (script nibbles 4, 6); timed owners: 3 ticks;
    // non-blocking owners: run alone after their first i steps
    let timed = sc.owner.is_timed();
    let tryk = sc.owner.is_try();
    let owner_a = if timed {
        120
    } else if tryk {
        1 | ((i.min(31) as u8) << 1)
    } else {
        0x64
    };
    let mut owner_ops = vec![[byte_for(p, sc.owner), 0, owner_a, 0]];
    if tryk {
        // twice: the second call sees whatever the peer did in the meantime
        owner_ops.push([byte_for(p, sc.owner), 0, owner_a, 0]);
    }
    // a full buffer for capacity 1 so that the send really waits
    if sc.owner.is_send() && !tryk {
        if let Cap::N(n) = sc.cap {
            for _ in 0..n {
                owner_ops.insert(0, [byte_for(p, K::TrySend), 0, 0, 0]);
            }
        }
    }
    // afterwards: nothing may be delivered into the dead future
    owner_ops.push([byte_for(p, if sc.owner.is_send() { K::TrySend } else { K::TryRecv }), 0, 0, 0]);
    let peer_ops: Vec<[u8; 4]> = sc
        .peer
        .iter()
        .map(|k| {
            let a = if k.is_timed() { 120 } else { 0 }; // 3 ticks
            [byte_for(p, *k), 0, a, 0]
        })
        .collect();
    // schedule: i one-step segments for the owner (thread 0), j for the peer (thread 1)
    let mut sched = Vec::new();
    if matches!(sc.owner, K::Recv | K::Send) {
        // first run the owner to the end of its spin phase (position-targeted segment)
        sched.extend_from_slice(&[0u8, 13u8]);
    }
    if tryk {
        // the peer first (j steps), then the owner for a long run; `i` is consumed by the
        // owner's alone-after count, not by schedule segments
        for _ in 0..j {
            sched.extend_from_slice(&[255u8, 0u8]);
        }
        if sc.extra > 0 {
            // the owner's first i steps, then the peer slips in for `extra` steps and is frozen
            for _ in 0..i {
                sched.extend_from_slice(&[0u8, 0u8]);
            }
            for _ in 0..sc.extra {
                sched.extend_from_slice(&[255u8, 0u8]);
            }
        }
        sched.extend_from_slice(&[0u8, 15u8]);
        return Case {
            cfg,
            threads: vec![owner_ops, peer_ops],
            prober: vec![[byte_for_prober(p), 0, 0, 0]],
            sched,
        };
    }
    for _ in 0..i {
        sched.extend_from_slice(&[0u8, 0u8]);
    }
    for _ in 0..j {
        sched.extend_from_slice(&[255u8, 0u8]);
    }
    if timed {
        // back to the owner with the clock advanced by 14 ticks, for a long run: it gets through
        // its remaining spin, finds the deadline passed and tries to cancel while the peer is
        // still where its j steps left it
        sched.extend_from_slice(&[0u8, 0xBFu8]);
    } else if sc.owner.is_async() {
        // back to the owner for 16 steps: its two yields, then the drop, with the peer frozen
        sched.extend_from_slice(&[0u8, 9u8]);
    }
    Case {
        cfg,
        threads: vec![owner_ops, peer_ops],
        prober: vec![[byte_for_prober(p), 0, 0, 0]],
        sched,
    }
}

fn byte_for_prober(p: &Profile) -> u8 {
    (0..=255u8)
        .find(|b| {
            let c = Case {
                cfg: [0; 6],
                threads: vec![vec![], vec![]],
                prober: vec![[*b, 0, 0, 0]],
                sched: vec![],
            };
            c.decode(p).prober[0].k == K::Observe
        })
        .unwrap_or(0)
}

/// One share of the grid (scenario index % parts == part); prints a JSON line.
pub fn run_part(prop: &str, tier: &str, part: usize, parts: usize) {
    std::env::set_var("VERIF_CASE_TIER", "quick");
    let p = props::profile(prop, "quick");
    let (imax, jmax) = grid_for(prop, tier);
    let scs: Vec<Scenario> = scenarios(prop).into_iter().enumerate().filter(|(i, _)| i % parts == part).map(|(_, s)| s).collect();
    let mut evaluations = 0u64;
    let mut nontrivial = 0u64;
    let mut claimed = 0u64;
    let mut failure: Option<(Case, CaseOut)> = None;
    let mut samples = Vec::new();
    'outer: for sc in scs.iter() {
        for i in 0..=imax {
            for j in 0..=jmax {
                let case = build_case(&p, sc, i, j);
                let o = run_case(prop, &case);
                evaluations += 1;
                let cls = |k: &str| o.classes.iter().find(|c| c.0 == k).map(|c| c.1).unwrap_or(0);
                if prop == "C14" {
                    if cls("rt_alone") + cls("try_lock_failed") > 0 || cls("ops") > 0 {
                        nontrivial += 1;
                    }
                    if samples.is_empty() && cls("rt_alone_lock_held") > 0 {
                        samples.push(o.sample.clone());
                    }
                    claimed += cls("rt_alone_lock_held") as u64;
                } else if prop == "C07" {
                    if cls("cross_thread_accesses") > 0 {
                        nontrivial += 1;
                        if samples.is_empty() {
                            samples.push(o.sample.clone());
                        }
                    }
                    claimed += cls("cross_thread_accesses") as u64;
                } else if prop == "C06" {
                    if cls("parked") > 0 {
                        nontrivial += 1;
                        if samples.is_empty() && cls("wake_unpark") > 0 {
                            samples.push(o.sample.clone());
                        }
                    }
                    claimed += cls("wake_unpark") as u64;
                } else if prop == "C13" {
                    if cls("timeout_while_registered") + cls("timed_success_after_deadline") > 0 {
                        nontrivial += 1;
                        if samples.is_empty() && cls("timed_success_after_deadline") > 0 {
                            samples.push(o.sample.clone());
                        }
                    }
                    claimed += cls("timed_success_after_deadline") as u64;
                } else {
                    if cls("future_drop_polled") > 0 {
                        nontrivial += 1;
                        if samples.is_empty() && cls("cancelled_but_delivered") + cls("recv_future_dropped_after_claim") > 0 {
                            samples.push(o.sample.clone());
                        }
                    }
                    claimed += (cls("cancelled_but_delivered") + cls("recv_future_dropped_after_claim")) as u64;
                }
                if !o.viols.is_empty() {
                    failure = Some((case, o));
                    break 'outer;
                }
            }
        }
    }
    let f = failure.as_ref().map(|(c, o)| {
        json!({"case": c.to_hex(), "sample": o.sample,
               "violations": o.viols.iter().map(|v| json!({"predicate": v.0, "signature": v.1, "detail": v.2})).collect::<Vec<_>>()})
    });
    println!("{}", json!({"evaluations": evaluations, "nontrivial": nontrivial, "claimed": claimed, "samples": samples, "failure": f}));
}

fn grid_for(prop: &str, tier: &str) -> (u32, u32) {
    match (prop, tier == "thorough") {
        ("C06", true) => (24, 48),
        ("C06", false) => (16, 36),
        ("C07", true) => (40, 40),
        ("C07", false) => (24, 24),
        ("C14", true) => (24, 48),
        ("C14", false) => (14, 26),
        (_, true) => (56, 40),
        (_, false) => (30, 22),
    }
}

/// Runs the whole grid in 8 processes; returns the exit code and appends a part to the evidence file.
pub fn run(prop: &str, tier: &str, seed: u64) -> i32 {
    let t0 = std::time::Instant::now();
    let (imax, jmax) = grid_for(prop, tier);
    let scs = scenarios(prop);
    let parts = 8usize;
    let exe = std::env::current_exe().expect("exe");
    let kids: Vec<_> = (0..parts)
        .map(|k| {
            std::process::Command::new(&exe)
                .args(["enumpart", prop, tier, &k.to_string(), &parts.to_string()])
                .stdout(std::process::Stdio::piped())
                .spawn()
                .expect("spawn")
        })
        .collect();
    let mut evaluations = 0u64;
    let mut nontrivial = 0u64;
    let mut claimed = 0u64;
    let mut samples: Vec<serde_json::Value> = Vec::new();
    let mut fail: Option<serde_json::Value> = None;
    let mut broken = 0;
    for k in kids {
        let out = k.wait_with_output().expect("wait");
        let line = String::from_utf8_lossy(&out.stdout);
        match serde_json::from_str::<serde_json::Value>(line.trim()) {
            Ok(v) => {
                evaluations += v["evaluations"].as_u64().unwrap_or(0);
                nontrivial += v["nontrivial"].as_u64().unwrap_or(0);
                claimed += v["claimed"].as_u64().unwrap_or(0);
                if let Some(a) = v["samples"].as_array() {
                    if samples.len() < 2 {
                        samples.extend(a.iter().cloned());
                    }
                }
                if fail.is_none() && !v["failure"].is_null() {
                    fail = Some(v["failure"].clone());
                }
            }
            Err(_) => broken += 1,
        }
    }
    if broken > 0 && fail.is_none() {
        println!("enumeration: {} worker(s) produced no result", broken);
        return 2;
    }
    let failure: Option<()> = None;
    let _ = &failure;
    let mut code = 0;
    if let Some(f) = &fail {
        let enc = f["case"].as_str().unwrap_or("").to_string();
        let rdir = driver::out_base().join("replays");
        let _ = std::fs::create_dir_all(&rdir);
        let rpath = rdir.join(format!("{}-{:016x}.json", prop, driver::digest(&enc)));
        let rv = json!({
            "property": prop, "engine": "conc", "case": enc, "tier": "quick", "from": "cancellation-point enumeration",
            "predicate": f["violations"][0]["predicate"],
            "violations": f["violations"],
            "sample": f["sample"],
        });
        std::fs::write(&rpath, serde_json::to_vec_pretty(&rv).unwrap()).expect("write replay");
        println!("VIOLATION property={} replay={}", prop, rpath.display());
        if let Some(vs) = f["violations"].as_array() {
            for v in vs.iter().take(3) {
                println!("  {}: {}", v["predicate"].as_str().unwrap_or(""), v["detail"].as_str().unwrap_or(""));
            }
        }
        code = 1;
    }
    let ev = json!({
        "property_id": prop, "tier": tier, "seed": seed, "level": if prop == "C15" { "fault_enumeration" } else { "exploration" },
        "coverage": {
            "engine": "conc-enumeration",
            "evaluations": evaluations,
            "distinct_nontrivial": nontrivial,
            "exhaustive": fail.is_none(),
            "rule": if prop == "C14" {
                format!("exhaustive grid: {} two-thread scenarios (non-blocking operation x peer operation(s) x capacity {{0,1}} x payload {{4,16 bytes}}): the peer is frozen after each of its first j in 0..={} steps, then the non-blocking operation is issued twice; realtime variants run their first i in 0..={} steps under normal scheduling and the rest with every other thread suspended and must finish within 64 steps; {} realtime calls found the lock held by the frozen peer", scs.len(), jmax, imax, claimed)
            } else if prop == "C07" {
                format!("exhaustive grid: {} two-thread scenarios (the park-transition, deadline-expiry and future-cancellation families of C06/C13/C15 with pointer-sized, 16- and 40-byte payloads) x owner progress i in 0..={} x peer progress j in 0..={}; the race, lifetime and waker-instance detectors judge every grid point; non-trivial = at least one cross-thread access into a published signal/slot was checked ({} such accesses in total)", scs.len(), imax, jmax, claimed)
            } else if prop == "C06" {
                format!("exhaustive grid: {} two-thread scenarios (blocking recv / send x releasing peer operation(s) incl. close and last-handle drop x capacity {{0,1}} x payload {{4,16 bytes}}); the owner is run to the end of its 256-yield spin phase, then makes i in 0..={} further steps (store thread handle, announce parking, park), then the peer makes j in 0..={} steps, then the fair tail; every grid point is a distinct case; non-trivial = the owner really parked ({} grid points released it through unpark)", scs.len(), imax, jmax, claimed)
            } else if prop == "C13" {
                format!("exhaustive grid: {} two-thread scenarios (timed operation x peer operation(s) x capacity {{0,1}} x payload {{4,16 bytes, zero-sized}}) x owner progress i in 0..={} x peer progress j in 0..={} one-step schedule segments, then the virtual clock jumps past the deadline and the owner resumes; every grid point is a distinct case; non-trivial = the deadline expired while the operation was registered (or it completed after its deadline because a peer had claimed it: {} grid points)", scs.len(), imax, jmax, claimed)
            } else {
                format!("exhaustive grid: {} two-thread scenarios (future kind x peer operation(s) x capacity {{0,1}} x payload {{4,16 bytes}}) x owner progress i in 0..={} x peer progress j in 0..={} one-step schedule segments before the owner resumes and drops the future; every grid point is a distinct case; non-trivial = the future had been polled when it was dropped; {} grid points dropped it after a peer had already claimed it", scs.len(), imax, jmax, claimed)
            },
            "samples": samples,
            "inconclusive": 0,
            "dropped_after_claim": claimed,
        },
        "assumptions": ["same interpreter, runtime and oracles as the generated tier"],
        "wall_s": t0.elapsed().as_secs_f64(),
        "violations": if code == 1 { 1 } else { 0 },
    });
    std::env::set_var("VERIF_EVIDENCE_APPEND", "1");
    driver::write_evidence(prop, &ev);
    println!(
        "{} {} engine=conc enumeration: {} grid points, {} non-trivial ({} {}), {:.1}s, exit {}",
        prop,
        tier,
        evaluations,
        nontrivial,
        claimed,
        match prop {
            "C06" => "released through unpark",
            "C07" => "cross-thread slot/signal accesses checked",
            "C14" => "realtime calls that met a lock held by the frozen peer",
            _ => "with the peer's claim racing the cancellation / deadline",
        },
        t0.elapsed().as_secs_f64(),
        code
    );
    code
}
