use common::driver::{self, ParentCfg};
use common::ops::*;
use conc::*;
use std::path::PathBuf;

fn cases_for(prop: &str, tier: &str) -> u32 {
    // fixed work per tier: 16 workers x this many generated cases (plus the regression cases)
    let _ = prop;
    if tier == "thorough" {
        300_000
    } else {
        30_000
    }
}

fn level_of(prop: &str) -> &'static str {
    if prop == "C15" {
        "fault_enumeration"
    } else {
        "exploration"
    }
}

fn main() {
    std::panic::set_hook(Box::new(|_| {}));
    let args: Vec<String> = std::env::args().collect();
    let cmd = args.get(1).map(|s| s.as_str()).unwrap_or("");
    let eng = Conc;
    match cmd {
        "check" => {
            let prop = args[2].clone();
            let tier = args.get(3).cloned().unwrap_or_else(|| "quick".into());
            let seed = driver::seed_from_env();
            let workers: u64 = std::env::var("VERIF_WORKERS").ok().and_then(|s| s.parse().ok()).unwrap_or(16);
            let code = driver::run_parent(
                &eng,
                ParentCfg {
                    prop: &prop,
                    tier: &tier,
                    seed,
                    workers,
                    cases_per_worker: std::env::var("VERIF_CASES").ok().and_then(|s| s.parse().ok()).unwrap_or(cases_for(&prop, &tier)),
                    level: level_of(&prop),
                    rule: props::rule_text(&prop),
                    assumptions: vec![
                        "executions are sequentially consistent interleavings of kanal's shimmed synchronisation operations (feature `verif`); happens-before is computed from the orderings as written".into(),
                        "bounds: 2-4 threads + prober, <= 6 ops per thread, capacity <= 8, <= 96-128 schedule bytes followed by a fair round-robin tail".into(),
                        "step-budget overruns are inconclusive, never violations".into(),
                    ],
                    exe_args: vec![],
                    engine_name: "conc",
                },
            );
            std::process::exit(code);
        }
        "worker" => {
            let prop = &args[2];
            let tier = &args[3];
            let seed: u64 = args[4].parse().unwrap();
            let worker: u64 = args[5].parse().unwrap();
            let cases: u32 = args[6].parse().unwrap();
            let out = PathBuf::from(&args[7]);
            driver::run_worker(&eng, prop, tier, seed, worker, cases, &out);
        }
        "replay" => {
            let prop = &args[2];
            let code = driver::run_replay(&eng, prop, &PathBuf::from(&args[3]));
            std::process::exit(code);
        }
        "profiles" => {
            // generator audit: which operation kinds a property's profile never generates
            for i in 1..=19 {
                let prop = format!("C{:02}", i);
                if prop == "C17" || prop == "C18" {
                    continue;
                }
                let pr = conc::props::profile(&prop, "quick");
                let missing: Vec<String> = common::ops::ALL_K
                    .iter()
                    .filter(|k| !pr.weights.iter().any(|(k2, w)| k2 == *k && *w > 0))
                    .map(|k| format!("{:?}", k))
                    .collect();
                println!("{} missing kinds: {}", prop, missing.join(" "));
            }
        }
        "enum" => {
            let prop = args[2].clone();
            let tier = args.get(3).cloned().unwrap_or_else(|| "quick".into());
            let r = std::panic::catch_unwind(|| enumerate::run(&prop, &tier, driver::seed_from_env()));
            match r {
                Ok(c) => std::process::exit(c),
                Err(e) => {
                    let m = e.downcast_ref::<String>().cloned().or_else(|| e.downcast_ref::<&str>().map(|s| s.to_string()));
                    println!("enumeration failed internally: {:?}", m);
                    std::process::exit(2);
                }
            }
        }
        "enumpart" => {
            enumerate::run_part(&args[2], &args[3], args[4].parse().unwrap(), args[5].parse().unwrap());
        }
        "lockcheck" => {
            let prop = args[2].clone();
            let tier = args.get(3).cloned().unwrap_or_else(|| "quick".into());
            let seed = driver::seed_from_env();
            let workers: u64 = std::env::var("VERIF_WORKERS").ok().and_then(|s| s.parse().ok()).unwrap_or(16);
            let base: u32 = if tier == "thorough" { 400_000 } else { 15_000 };
            let code = driver::run_parent(
                &lockfuzz::LockEng,
                ParentCfg {
                    prop: &prop,
                    tier: &tier,
                    seed,
                    workers,
                    cases_per_worker: std::env::var("VERIF_CASES").ok().and_then(|s| s.parse().ok()).unwrap_or(base),
                    level: "exploration",
                    rule: lockfuzz::RULE,
                    assumptions: vec![
                        "the lock is exercised directly through the re-export of the `verif` feature (same type the channel uses); executions are sequentially consistent interleavings, happens-before computed from the orderings as written".into(),
                        "progress is decided as deterministic stuck/livelock detection under a fair round-robin tail".into(),
                    ],
                    exe_args: vec!["lock".into()],
                    engine_name: "lock",
                },
            );
            std::process::exit(code);
        }
        "lock" => {
            // lock worker / replay: args shifted by one
            let sub = args.get(2).map(|s| s.as_str()).unwrap_or("");
            if sub == "worker" {
                let out = PathBuf::from(&args[8]);
                driver::run_worker(&lockfuzz::LockEng, &args[3], &args[4], args[5].parse().unwrap(), args[6].parse().unwrap(), args[7].parse().unwrap(), &out);
            } else if sub == "replay" {
                let code = driver::run_replay(&lockfuzz::LockEng, &args[3], &PathBuf::from(&args[4]));
                std::process::exit(code);
            }
        }
        "lockreplay" => {
            let code = driver::run_replay(&lockfuzz::LockEng, &args[2], &PathBuf::from(&args[3]));
            std::process::exit(code);
        }
        "hex" => {
            // run one case given as hex and print everything
            let prop = &args[2];
            let case = Case::from_hex(&args[3]);
            let o = run_case(prop, &case);
            println!("{}", serde_json::to_string_pretty(&o.sample).unwrap());
            for v in o.viols.iter() {
                println!("VIOL {} [{}]: {}", v.0, v.1, v.2);
            }
            for v in o.other.iter() {
                println!("other: {}", v);
            }
        }
        _ => {
            eprintln!("usage: conc check <prop> [quick|thorough] | worker ... | replay <prop> <file> | hex <prop> <hex>");
            std::process::exit(2);
        }
    }
}
