mod explain;
mod interp;
mod lockfuzz;
mod oracle;
mod payload;
mod props;
mod rt;

use common::driver::{self, CaseOut, Engine, ParentCfg};
use common::ops::*;
use proptest::prelude::*;
use proptest::strategy::BoxedStrategy;
use serde_json::json;
use std::hash::{Hash, Hasher};
use std::path::PathBuf;

pub struct Conc;

fn hash_of<T: Hash>(t: &T) -> u64 {
    let mut h = std::collections::hash_map::DefaultHasher::new();
    t.hash(&mut h);
    h.finish()
}

fn short_res(r: &interp::Res) -> String {
    use interp::Res::*;
    match r {
        Stuck => "Stuck".into(),
        Unit => "Ok".into(),
        Bool(b) => format!("Ok({})", b),
        Val(_) => "Ok(value)".into(),
        NoneV => "Ok(None)".into(),
        Count(..) => "Ok(count)".into(),
        Err(e) => format!("Err({:?})", e),
        End => "End".into(),
        Panic(_) => "Panic".into(),
        Dropped(n) => format!("Dropped(after {} poll{})", if *n == 0 { "0".to_string() } else { ">=1".to_string() }, "s"),
        Skip => "Skip".into(),
        Obs(_) => "Obs".into(),
        Done => "Done".into(),
    }
}

pub fn run_case(prop: &str, case: &Case) -> CaseOut {
    let prof = props::profile(prop, "quick");
    let prog = case.decode(&prof);
    let out = interp::run_any(&prog);
    oracle::EXPLAIN.with(|e| e.set(prop == "C03"));
    let (viols, feat) = oracle::evaluate(&prog, &out);
    let ops = &out.exec.ops;
    let mut co = CaseOut::default();
    for v in viols.iter() {
        let (k, r) = match v.op.and_then(|i| ops.get(i as usize)) {
            Some(o) => (o.k.name().to_string(), short_res(&o.res)),
            None => ("-".into(), "-".into()),
        };
        if props::accepts(prop, v, ops) {
            co.viols.push((v.pred.to_string(), format!("{}/{}/{}/{}", prop, v.pred, k, r), v.detail.clone()));
        } else {
            co.other.push(format!("{}/{}/{}", v.pred, k, r));
        }
    }
    co.inconclusive = out.outcome.end == rt::End::Budget;
    co.classes = feat.c.iter().map(|(k, n)| (k.to_string(), *n)).collect();
    if props::nontrivial(prop, &feat) && !co.inconclusive {
        co.nontrivial = Some(hash_of(&(hash_of(&prog), out.outcome.seq_digest)));
    }
    let hist: Vec<String> = ops
        .iter()
        .filter(|o| o.res != interp::Res::Skip)
        .map(|o| {
            format!(
                "#{} t{} {}{} [{}..{}] -> {:?}{}",
                0,
                o.t,
                o.k.name(),
                if o.implicit { "(implicit)" } else { "" },
                o.inv,
                if o.ret == 0 { "stuck".to_string() } else { o.ret.to_string() },
                o.res,
                match o.sent {
                    Some(id) if id != u32::MAX => format!(" sent={}", id),
                    _ => String::new(),
                }
            )
        })
        .enumerate()
        .map(|(i, s)| s.replacen("#0", &format!("#{}", i), 1))
        .collect();
    co.sample = json!({
        "case_hex": case.to_hex(),
        "program": prog.to_json(),
        "end": format!("{:?}", out.outcome.end),
        "steps": out.outcome.steps,
        "switches": out.outcome.switches,
        "history": hist,
        "classes": feat.c,
    });
    co
}

impl Engine for Conc {
    type Case = Case;
    fn strategy(&self, prop: &str, tier: &str) -> BoxedStrategy<Case> {
        let p = props::profile(prop, tier);
        let op = any::<[u8; 4]>();
        let thread = prop::collection::vec(op, 0..=p.max_ops);
        let threads = prop::collection::vec(thread, p.threads.0..=p.threads.1);
        let prober = prop::collection::vec(any::<[u8; 4]>(), 0..=p.prober_ops);
        let sched = prop::collection::vec(any::<u8>(), 0..=p.max_sched);
        (any::<[u8; 6]>(), threads, prober, sched)
            .prop_map(|(cfg, threads, prober, sched)| Case {
                cfg,
                threads,
                prober,
                sched,
            })
            .boxed()
    }
    fn run(&self, prop: &str, case: &Case) -> CaseOut {
        run_case(prop, case)
    }
    fn encode(&self, case: &Case) -> String {
        case.to_hex()
    }
    fn decode(&self, s: &str) -> Case {
        Case::from_hex(s.trim())
    }
    fn regressions(&self, prop: &str) -> Vec<String> {
        let mut v = Vec::new();
        let dir = PathBuf::from(driver::VERIF).join("regressions").join("conc");
        if let Ok(rd) = std::fs::read_dir(&dir) {
            let mut files: Vec<_> = rd.flatten().map(|e| e.path()).collect();
            files.sort();
            for f in files {
                let name = f.file_name().unwrap().to_string_lossy().to_string();
                if name.starts_with(prop) || name.starts_with("ALL") {
                    if let Ok(s) = std::fs::read_to_string(&f) {
                        if let Ok(j) = serde_json::from_str::<serde_json::Value>(&s) {
                            if let Some(c) = j["case"].as_str() {
                                v.push(c.to_string());
                            }
                        }
                    }
                }
            }
        }
        v
    }
}

fn cases_for(prop: &str, tier: &str) -> u32 {
    let quick: u32 = match prop {
        "C03" => 1200,
        _ => 2500,
    };
    if tier == "thorough" {
        quick * 40
    } else {
        quick
    }
}

fn level_of(prop: &str) -> &'static str {
    if prop == "C15" {
        "fault_enumeration"
    } else {
        "exploration"
    }
}

fn main() {
    std::panic::set_hook(Box::new(|_| {}));
    let args: Vec<String> = std::env::args().collect();
    let cmd = args.get(1).map(|s| s.as_str()).unwrap_or("");
    let eng = Conc;
    match cmd {
        "check" => {
            let prop = args[2].clone();
            let tier = args.get(3).cloned().unwrap_or_else(|| "quick".into());
            let seed = driver::seed_from_env();
            let workers: u64 = std::env::var("VERIF_WORKERS").ok().and_then(|s| s.parse().ok()).unwrap_or(16);
            let code = driver::run_parent(
                &eng,
                ParentCfg {
                    prop: &prop,
                    tier: &tier,
                    seed,
                    workers,
                    cases_per_worker: std::env::var("VERIF_CASES").ok().and_then(|s| s.parse().ok()).unwrap_or(cases_for(&prop, &tier)),
                    level: level_of(&prop),
                    rule: props::rule_text(&prop),
                    assumptions: vec![
                        "executions are sequentially consistent interleavings of kanal's shimmed synchronisation operations (feature `verif`); happens-before is computed from the orderings as written".into(),
                        "bounds: 2-4 threads + prober, <= 6 ops per thread, capacity <= 8, <= 96-128 schedule bytes followed by a fair round-robin tail".into(),
                        "step-budget overruns are inconclusive, never violations".into(),
                    ],
                    exe_args: vec![],
                    engine_name: "conc",
                },
            );
            std::process::exit(code);
        }
        "worker" => {
            let prop = &args[2];
            let tier = &args[3];
            let seed: u64 = args[4].parse().unwrap();
            let worker: u64 = args[5].parse().unwrap();
            let cases: u32 = args[6].parse().unwrap();
            let out = PathBuf::from(&args[7]);
            driver::run_worker(&eng, prop, tier, seed, worker, cases, &out);
        }
        "replay" => {
            let prop = &args[2];
            let code = driver::run_replay(&eng, prop, &PathBuf::from(&args[3]));
            std::process::exit(code);
        }
        "lockcheck" => {
            let prop = args[2].clone();
            let tier = args.get(3).cloned().unwrap_or_else(|| "quick".into());
            let seed = driver::seed_from_env();
            let workers: u64 = std::env::var("VERIF_WORKERS").ok().and_then(|s| s.parse().ok()).unwrap_or(16);
            let base: u32 = if tier == "thorough" { 150_000 } else { 4000 };
            let code = driver::run_parent(
                &lockfuzz::LockEng,
                ParentCfg {
                    prop: &prop,
                    tier: &tier,
                    seed,
                    workers,
                    cases_per_worker: std::env::var("VERIF_CASES").ok().and_then(|s| s.parse().ok()).unwrap_or(base),
                    level: "exploration",
                    rule: lockfuzz::RULE,
                    assumptions: vec![
                        "the lock is exercised directly through the re-export of the `verif` feature (same type the channel uses); executions are sequentially consistent interleavings, happens-before computed from the orderings as written".into(),
                        "progress is decided as deterministic stuck/livelock detection under a fair round-robin tail".into(),
                    ],
                    exe_args: vec!["lock".into()],
                    engine_name: "lock",
                },
            );
            std::process::exit(code);
        }
        "lock" => {
            // lock worker / replay: args shifted by one
            let sub = args.get(2).map(|s| s.as_str()).unwrap_or("");
            if sub == "worker" {
                let out = PathBuf::from(&args[8]);
                driver::run_worker(&lockfuzz::LockEng, &args[3], &args[4], args[5].parse().unwrap(), args[6].parse().unwrap(), args[7].parse().unwrap(), &out);
            } else if sub == "replay" {
                let code = driver::run_replay(&lockfuzz::LockEng, &args[3], &PathBuf::from(&args[4]));
                std::process::exit(code);
            }
        }
        "lockreplay" => {
            let code = driver::run_replay(&lockfuzz::LockEng, &args[2], &PathBuf::from(&args[3]));
            std::process::exit(code);
        }
        "hex" => {
            // run one case given as hex and print everything
            let prop = &args[2];
            let case = Case::from_hex(&args[3]);
            let o = run_case(prop, &case);
            println!("{}", serde_json::to_string_pretty(&o.sample).unwrap());
            for v in o.viols.iter() {
                println!("VIOL {} [{}]: {}", v.0, v.1, v.2);
            }
            for v in o.other.iter() {
                println!("other: {}", v);
            }
        }
        _ => {
            eprintln!("usage: conc check <prop> [quick|thorough] | worker ... | replay <prop> <file> | hex <prop> <hex>");
            std::process::exit(2);
        }
    }
}
