//! Controlled runtime: virtual threads on pooled OS threads (one runs at a time),
//! a byte-string schedule with a fair tail, a virtual clock, park/unpark, waker
//! blocking, a vector-clock happens-before engine interpreting the orderings as
//! written, a race detector and a signal-lifetime detector.
//!
//! A run is a pure function of (tree, bodies, schedule bytes, config).

use kanal::verif::{self, AtomicOp, Runtime};
use std::cell::Cell;
use std::collections::HashMap;
use std::panic::{catch_unwind, AssertUnwindSafe};
use std::sync::atomic::Ordering as O;
use std::sync::{mpsc, Condvar, Mutex, MutexGuard};

pub const MAXT: usize = 8;
pub type VC = [u32; MAXT];
pub const NOTE_WAKER_FIRED: u32 = 1000;
pub const TICK: u64 = 1_000_000; // one virtual tick = 1 ms in ns

const RUN: [u32; 11] = [1, 2, 3, 4, 6, 8, 16, 32, 64, 128, 700];
const FAIR_QUANTUM: u32 = 48;

// ---------------------------------------------------------------------------
// allocation tracking: the detectors key on addresses, so they must know when memory
// they remember (a retired signal, a shadow cell) has been handed out again by the
// allocator - including allocations made inside kanal (the stream's boxed future).
// ---------------------------------------------------------------------------
const RING: usize = 4096;
static ALLOC_SEQ: std::sync::atomic::AtomicUsize = std::sync::atomic::AtomicUsize::new(0);
#[allow(clippy::declare_interior_mutable_const)]
const AZ: std::sync::atomic::AtomicUsize = std::sync::atomic::AtomicUsize::new(0);
static RING_ADDR: [std::sync::atomic::AtomicUsize; RING] = [AZ; RING];
static RING_LEN: [std::sync::atomic::AtomicUsize; RING] = [AZ; RING];

const QN: usize = 1024;
static Q_LOCK: std::sync::atomic::AtomicBool = std::sync::atomic::AtomicBool::new(false);
static Q_POS: std::sync::atomic::AtomicUsize = std::sync::atomic::AtomicUsize::new(0);
static Q_PTR: [std::sync::atomic::AtomicUsize; QN] = [AZ; QN];
static Q_SIZE: [std::sync::atomic::AtomicUsize; QN] = [AZ; QN];
static Q_ALIGN: [std::sync::atomic::AtomicUsize; QN] = [AZ; QN];

pub struct TrackingAlloc;
unsafe impl std::alloc::GlobalAlloc for TrackingAlloc {
    unsafe fn alloc(&self, l: std::alloc::Layout) -> *mut u8 {
        let p = std::alloc::System.alloc(l);
        note_alloc(p as usize, l.size());
        p
    }
    unsafe fn alloc_zeroed(&self, l: std::alloc::Layout) -> *mut u8 {
        let p = std::alloc::System.alloc_zeroed(l);
        note_alloc(p as usize, l.size());
        p
    }
    unsafe fn dealloc(&self, p: *mut u8, l: std::alloc::Layout) {
        // Quarantine (like ASan's): small blocks are really freed only after QN further
        // frees, so that a dangling access into a dropped future still hits memory that
        // nobody else owns - the lifetime detector then sees it (and the harness' own data
        // is not what gets corrupted).  Not under cargo-fuzz, where ASan does this itself.
        #[cfg(not(fuzzing))]
        {
            if l.size() <= 2048 && l.size() > 0 {
                use std::sync::atomic::Ordering::{Acquire, Relaxed, Release};
                while Q_LOCK.compare_exchange_weak(false, true, Acquire, Relaxed).is_err() {
                    std::hint::spin_loop();
                }
                let i = Q_POS.load(Relaxed);
                let old = (Q_PTR[i].load(Relaxed), Q_SIZE[i].load(Relaxed), Q_ALIGN[i].load(Relaxed));
                Q_PTR[i].store(p as usize, Relaxed);
                Q_SIZE[i].store(l.size(), Relaxed);
                Q_ALIGN[i].store(l.align(), Relaxed);
                Q_POS.store((i + 1) % QN, Relaxed);
                Q_LOCK.store(false, Release);
                if old.0 != 0 {
                    std::alloc::System.dealloc(
                        old.0 as *mut u8,
                        std::alloc::Layout::from_size_align_unchecked(old.1, old.2),
                    );
                }
                return;
            }
        }
        std::alloc::System.dealloc(p, l)
    }
    unsafe fn realloc(&self, p: *mut u8, l: std::alloc::Layout, n: usize) -> *mut u8 {
        let q = std::alloc::System.realloc(p, l, n);
        note_alloc(q as usize, n);
        q
    }
}

#[inline]
fn note_alloc(addr: usize, len: usize) {
    use std::sync::atomic::Ordering::Relaxed;
    let i = ALLOC_SEQ.fetch_add(1, Relaxed);
    RING_ADDR[i % RING].store(addr, Relaxed);
    RING_LEN[i % RING].store(len, Relaxed);
}

fn alloc_seq() -> usize {
    ALLOC_SEQ.load(std::sync::atomic::Ordering::Relaxed)
}

/// Was [addr, addr+len) (partly) handed out by the allocator since `seq`?  Conservative:
/// "yes" when the ring has wrapped since then.
fn reallocated_since(seq: usize, addr: usize, len: usize) -> bool {
    use std::sync::atomic::Ordering::Relaxed;
    let now = ALLOC_SEQ.load(Relaxed);
    if now.wrapping_sub(seq) >= RING {
        return true;
    }
    let mut i = seq;
    while i != now {
        let a = RING_ADDR[i % RING].load(Relaxed);
        let l = RING_LEN[i % RING].load(Relaxed);
        if a < addr + len && addr < a + l.max(1) {
            return true;
        }
        i = i.wrapping_add(1);
    }
    false
}

#[inline]
fn join(a: &mut VC, b: &VC) {
    for i in 0..MAXT {
        if b[i] > a[i] {
            a[i] = b[i];
        }
    }
}

#[derive(Clone, Copy, Debug, PartialEq, Eq)]
pub enum St {
    NotStarted,
    Runnable,
    Parked,
    WaitWaker(u32),
    Finished,
}

#[derive(Clone, Debug)]
pub struct Th {
    pub st: St,
    token: bool,
    token_clock: VC,
    c: VC,
    pend: VC,
    frel: VC,
    pub low_prio: bool,
    uninterruptible: bool,
    /// scheduling points still to be executed normally before the thread runs alone
    alone_after: Option<u32>,
    alone_points: u32,
    consec_yield: u32,
    pub parks: u32,
    spinning: bool,
    forced: bool,
    /// yield-type points since the last point that was neither a yield nor a load
    spin_streak: u32,
    /// address of the last atomic this thread CAS-ed successfully from 0 to 1
    last_cas: usize,
    /// lock word currently held (0 = none)
    holding: usize,
}

#[derive(Clone, Debug)]
pub struct Note {
    pub stamp: u64,
    pub vid: u8,
    pub kind: u32,
    pub arg: usize,
}

#[derive(Clone, Debug)]
pub struct MemViolation {
    pub kind: &'static str, // "race" | "uaf"
    pub stamp: u64,
    pub vid: u8,
    pub detail: String,
}

#[derive(Clone, Copy)]
struct Shadow {
    w_t: u8,
    w_c: u32,
    r: VC,
    /// allocation sequence number when this cell was last updated
    seq: usize,
}

#[derive(Clone, Copy, Debug)]
struct Range {
    start: usize,
    len: usize,
    owner: u8,
    sig: usize,
    /// allocation sequence number at retire time
    seq: usize,
}

#[derive(Clone, Debug, Default)]
pub struct Config {
    pub sched: Vec<u8>,
    pub parallelism: usize,
    pub step_budget: u64,
    pub livelock_yields: u32,
}

#[derive(Clone, Debug, PartialEq, Eq)]
pub enum End {
    /// every thread finished
    Complete,
    /// some thread could not be released even after the rescue; threads leaked
    Abandoned(String),
    /// step budget exhausted (inconclusive, never a violation)
    Budget,
}

#[derive(Debug)]
pub struct Outcome {
    pub end: End,
    pub notes: Vec<Note>,
    pub mem: Vec<MemViolation>,
    pub steps: u64,
    pub switches: u64,
    pub seq_digest: u64,
    pub parks: u32,
    pub unpark_wakes: u32,
    pub spurious_unparks: u32,
    pub moved_unpin: u32,
    pub stream_handed_over: u32,
    pub final_time: u64,
    pub panics: Vec<(u8, String)>,
    pub livelock: Option<u8>,
    pub sched_used: usize,
    pub cross_checked: u32,
    pub spin_end_segments: u32,
}

struct Inner {
    gen: u64,
    active: bool,
    done: bool,
    end: End,
    cur: usize,
    th: Vec<Th>,
    sched: Vec<u8>,
    pos: usize,
    seg_left: u32,
    /// current segment runs its thread to the end of its spin phase
    seg_spin_end: bool,
    pub_spin_end_segments: u32,
    fair: bool,
    fair_left: u32,
    now: u64,
    stamp: u64,
    steps: u64,
    budget: u64,
    livelock_yields: u32,
    switches: u64,
    seq_digest: u64,
    parallelism: usize,
    atom: HashMap<usize, VC>,
    /// atomics that were ever loaded, stored or compare-exchanged (anything but a pure counter)
    sync_addrs: std::collections::HashSet<usize>,
    shadow: HashMap<usize, Shadow>,
    live: Vec<Range>,
    retired: Vec<Range>,
    notes: Vec<Note>,
    mem: Vec<MemViolation>,
    wakers: Vec<WakerSt>,
    unpark_wakes: u32,
    spurious_unparks: u32,
    moved_unpin: u32,
    stream_handed_over: u32,
    panics: Vec<(u8, String)>,
    livelock: Option<u8>,
    cross_checked: u32,
}

#[derive(Clone, Debug, Default)]
struct WakerSt {
    fired: u32,
    consumed: u32,
    clock: VC,
    owner: u8,
}

pub struct Rt {
    inner: Mutex<Inner>,
    cvs: Vec<Condvar>,
    done_cv: Condvar,
}

thread_local! {
    static VID: Cell<u32> = const { Cell::new(u32::MAX) };
    static GEN: Cell<u64> = const { Cell::new(0) };
}

static RT: std::sync::OnceLock<Rt> = std::sync::OnceLock::new();

pub fn rt() -> &'static Rt {
    RT.get_or_init(|| Rt {
        inner: Mutex::new(Inner::new()),
        cvs: (0..MAXT).map(|_| Condvar::new()).collect(),
        done_cv: Condvar::new(),
    })
}

/// Install the runtime into kanal's hook table (idempotent).
pub fn install() {
    static ONCE: std::sync::Once = std::sync::Once::new();
    ONCE.call_once(|| {
        verif::install(rt());
    });
}

impl Inner {
    fn new() -> Self {
        Inner {
            gen: 0,
            active: false,
            done: false,
            end: End::Complete,
            cur: 0,
            th: Vec::new(),
            sched: Vec::new(),
            pos: 0,
            seg_left: 0,
            seg_spin_end: false,
            pub_spin_end_segments: 0,
            fair: false,
            fair_left: 0,
            now: 0,
            stamp: 0,
            steps: 0,
            budget: 0,
            livelock_yields: 0,
            switches: 0,
            seq_digest: 0,
            parallelism: 16,
            atom: HashMap::new(),
            sync_addrs: std::collections::HashSet::new(),
            shadow: HashMap::new(),
            live: Vec::new(),
            retired: Vec::new(),
            notes: Vec::new(),
            mem: Vec::new(),
            wakers: Vec::new(),
            unpark_wakes: 0,
            spurious_unparks: 0,
            moved_unpin: 0,
            stream_handed_over: 0,
            panics: Vec::new(),
            livelock: None,
            cross_checked: 0,
        }
    }

    fn runnable(&self, i: usize) -> bool {
        self.th[i].st == St::Runnable
    }

    /// Next thread according to the schedule; `None` when nobody can run.
    fn pick(&mut self) -> Option<usize> {
        let normal: Vec<usize> = (0..self.th.len())
            .filter(|&i| self.runnable(i) && !self.th[i].low_prio)
            .collect();
        if normal.is_empty() {
            // only the low-priority (prober / epilogue) thread may run
            return (0..self.th.len()).find(|&i| self.runnable(i) && self.th[i].low_prio);
        }
        if !self.fair && self.pos + 1 < self.sched.len() {
            let a = self.sched[self.pos] as usize;
            let b = self.sched[self.pos + 1];
            self.pos += 2;
            let idx = a * normal.len() / 256;
            let cls = ((b & 15) as usize) * RUN.len() / 16;
            self.seg_left = RUN[cls];
            self.seg_spin_end = false;
            if b & 15 == 13 {
                // position-targeted segment: run the chosen thread until its current spin phase
                // (>= 64 yield iterations) is about to end, i.e. right before its next step
                // that is neither a yield nor a load (for `Signal::wait`: before it stores its
                // thread handle and announces that it parks)
                self.seg_spin_end = true;
                self.seg_left = 1500;
                self.pub_spin_end_segments += 1;
            }
            let dt = match (b >> 4) & 3 {
                0 | 1 => 0,
                2 => 1,
                _ => 4,
            };
            let dt = if b & 0x80 != 0 { dt + 10 } else { dt };
            self.now += dt * TICK;
            if b & 0x40 != 0 {
                // spurious unpark of some parked thread (std allows it)
                let parked: Vec<usize> = (0..self.th.len())
                    .filter(|&i| self.th[i].st == St::Parked)
                    .collect();
                if !parked.is_empty() {
                    let p = parked[a % parked.len()];
                    self.th[p].st = St::Runnable;
                    self.spurious_unparks += 1;
                }
            }
            Some(normal[idx])
        } else {
            if !self.fair {
                // livelock is judged on the fair tail only: yields spent under the scripted
                // part of the schedule (where the virtual clock does not advance by itself) do
                // not count
                for th in self.th.iter_mut() {
                    th.consec_yield = 0;
                }
            }
            self.fair = true;
            self.fair_left = FAIR_QUANTUM;
            // round robin: first runnable after cur
            let n = self.th.len();
            for k in 1..=n {
                let i = (self.cur + k) % n;
                if self.runnable(i) && !self.th[i].low_prio {
                    return Some(i);
                }
            }
            None
        }
    }

    fn note_switch(&mut self, to: usize) {
        self.switches += 1;
        self.seq_digest = self
            .seq_digest
            .wrapping_mul(0x100000001b3)
            .wrapping_add(to as u64 + 1);
    }

    fn bump(&mut self, t: usize) {
        self.th[t].c[t] += 1;
        self.stamp += 1;
    }

    fn check_uaf(&mut self, t: usize, addr: usize, len: usize, what: &str) {
        if self.retired.is_empty() {
            return;
        }
        // memory that the allocator has handed out again is a new object, not the dead signal
        let hit = self
            .retired
            .iter()
            .any(|r| addr < r.start + r.len && r.start < addr + len);
        if hit {
            self.retired
                .retain(|r| !(addr < r.start + r.len && r.start < addr + len && reallocated_since(r.seq, r.start, r.len)));
        }
        for r in self.retired.iter() {
            if r.owner as usize != t && addr < r.start + r.len && r.start < addr + len {
                let d = format!(
                    "{} of {} byte(s) at {:#x} by thread {} hits retired signal/slot of thread {} (sig {:#x})",
                    what, len, addr, t, r.owner, r.sig
                );
                if self.mem.len() < 8 {
                    self.mem.push(MemViolation {
                        kind: "uaf",
                        stamp: self.stamp,
                        vid: t as u8,
                        detail: d,
                    });
                }
                return;
            }
        }
    }

    fn access(&mut self, t: usize, addr: usize, len: usize, is_write: bool) {
        self.check_uaf(t, addr, len, if is_write { "write" } else { "read" });
        // classification: cross-thread access into a live published range
        if self
            .live
            .iter()
            .any(|r| r.owner as usize != t && addr < r.start + r.len && r.start < addr + len)
        {
            self.cross_checked += 1;
        }
        let c = self.th[t].c;
        let mut bad: Option<String> = None;
        for b in addr..addr + len {
            let now_seq = alloc_seq();
            let e = self.shadow.entry(b).or_insert(Shadow {
                w_t: u8::MAX,
                w_c: 0,
                r: [0; MAXT],
                seq: now_seq,
            });
            if e.seq != now_seq && (e.w_t != u8::MAX || e.r.iter().any(|x| *x != 0)) && reallocated_since(e.seq, b, 1) {
                // the byte belongs to a new allocation: forget the old object's history
                *e = Shadow {
                    w_t: u8::MAX,
                    w_c: 0,
                    r: [0; MAXT],
                    seq: now_seq,
                };
            }
            e.seq = now_seq;
            if e.w_t != u8::MAX && e.w_t as usize != t && e.w_c > c[e.w_t as usize] {
                bad.get_or_insert_with(|| {
                    format!(
                        "{} at {:#x} by thread {} not ordered after write by thread {}",
                        if is_write { "write" } else { "read" },
                        b,
                        t,
                        e.w_t
                    )
                });
            }
            if is_write {
                for i in 0..MAXT {
                    if i != t && e.r[i] > c[i] {
                        bad.get_or_insert_with(|| {
                            format!(
                                "write at {:#x} by thread {} not ordered after read by thread {}",
                                b, t, i
                            )
                        });
                    }
                }
                e.w_t = t as u8;
                e.w_c = c[t];
                e.r = [0; MAXT];
            } else {
                e.r[t] = c[t];
            }
        }
        if let Some(d) = bad {
            if self.mem.len() < 8 {
                self.mem.push(MemViolation {
                    kind: "race",
                    stamp: self.stamp,
                    vid: t as u8,
                    detail: d,
                });
            }
        }
        self.bump(t);
    }
}

fn lock(rt: &Rt) -> MutexGuard<'_, Inner> {
    rt.inner.lock().unwrap_or_else(|e| e.into_inner())
}

#[derive(Clone, Copy, PartialEq, Eq)]
enum Pt {
    Plain,
    Yield,
    /// an atomic load (part of a spin iteration)
    Load,
}

impl Rt {
    fn me(&self) -> usize {
        VID.with(|v| v.get()) as usize
    }

    /// Scheduling point.  Called with the baton held by `me`.
    fn point(&self, kind: Pt) {
        let me = self.me();
        let mut g = lock(self);
        g.steps += 1;
        g.stamp += 1;
        if let Some(k) = g.th[me].alone_after {
            if k == 0 {
                g.th[me].alone_after = None;
                g.th[me].uninterruptible = true;
                g.th[me].alone_points = 0;
            } else {
                g.th[me].alone_after = Some(k - 1);
            }
        }
        if g.th[me].uninterruptible {
            g.th[me].alone_points += 1;
            if g.th[me].alone_points > 20_000 {
                // an uninterruptible section that never ends: give up on this execution
                self.abandon(g, me, "uninterruptible section did not finish".into());
            }
            return;
        }
        if kind == Pt::Yield && g.th[me].holding != 0 && g.mem.len() < 8 {
            let st = g.stamp;
            g.mem.push(MemViolation {
                kind: "wait_in_cs",
                stamp: st,
                vid: me as u8,
                detail: format!("thread {} yields / sleeps / spins while holding the channel lock", me),
            });
        }
        if kind == Pt::Yield {
            g.th[me].consec_yield += 1;
            if g.th[me].consec_yield > g.livelock_yields && g.fair {
                // every runnable thread spinning without progress?
                let all = (0..g.th.len())
                    .filter(|&i| g.runnable(i) && !g.th[i].low_prio)
                    .all(|i| g.th[i].consec_yield > g.livelock_yields);
                if all {
                    g.livelock = Some(me as u8);
                    self.abandon(g, me, format!("livelock: thread {} spins without progress", me));
                }
            }
        }
        if g.steps > g.budget {
            g.end = End::Budget;
            self.abandon_with(g, me);
        }
        let mut spin_phase_ends = false;
        match kind {
            Pt::Yield => g.th[me].spin_streak += 1,
            Pt::Load => {}
            Pt::Plain => {
                if g.seg_spin_end && !g.fair && g.th[me].spin_streak >= 64 {
                    spin_phase_ends = true;
                }
                g.th[me].spin_streak = 0;
            }
        }
        if spin_phase_ends {
            g.seg_left = 0;
            g.seg_spin_end = false;
        }
        let lowprio_must_yield = g.th[me].low_prio
            && (0..g.th.len()).any(|i| g.runnable(i) && !g.th[i].low_prio);
        let switch_now = if lowprio_must_yield {
            true
        } else if g.fair {
            if kind == Pt::Yield || g.fair_left == 0 {
                true
            } else {
                g.fair_left -= 1;
                false
            }
        } else if g.seg_left > 0 {
            g.seg_left -= 1;
            false
        } else {
            true
        };
        if !switch_now {
            return;
        }
        match g.pick() {
            Some(n) if n == me => {}
            Some(n) => self.switch_from(g, me, n),
            None => {} // cannot happen: `me` is runnable
        }
    }

    /// Hand the baton to `n` and sleep until it comes back.
    fn switch_from(&self, mut g: MutexGuard<'_, Inner>, me: usize, n: usize) {
        g.cur = n;
        g.note_switch(n);
        let gen = g.gen;
        self.cvs[n].notify_all();
        while !(g.cur == me && g.gen == gen && g.active) {
            g = self.cvs[me].wait(g).unwrap_or_else(|e| e.into_inner());
            if g.gen != gen {
                // zombie of an abandoned execution: sleep for ever
                drop(g);
                loop {
                    std::thread::park();
                }
            }
        }
    }

    /// The current thread cannot continue (blocked or finished): pass the baton on.
    fn block_and_pass(&self, mut g: MutexGuard<'_, Inner>, me: usize) {
        g.seg_left = 0;
        g.seg_spin_end = false;
        match g.pick() {
            Some(n) => {
                if g.th[me].st == St::Finished {
                    g.cur = n;
                    g.note_switch(n);
                    self.cvs[n].notify_all();
                } else {
                    self.switch_from(g, me, n);
                }
            }
            None => {
                let all_finished = g.th.iter().all(|t| t.st == St::Finished);
                if all_finished {
                    g.end = End::Complete;
                    g.done = true;
                    g.active = false;
                    self.done_cv.notify_all();
                } else {
                    // nobody can run and the epilogue is over (or is the one blocking)
                    let stuck: Vec<String> = g
                        .th
                        .iter()
                        .enumerate()
                        .filter(|(_, t)| t.st != St::Finished)
                        .map(|(i, t)| format!("{}:{:?}", i, t.st))
                        .collect();
                    if g.th[me].st == St::Finished {
                        // a finished pool thread must not become a zombie
                        g.end = End::Abandoned(format!("stuck after rescue: {}", stuck.join(",")));
                        g.done = true;
                        g.active = false;
                        g.gen += 1;
                        self.done_cv.notify_all();
                        return;
                    }
                    self.abandon(g, me, format!("stuck after rescue: {}", stuck.join(",")));
                }
            }
        }
    }

    fn abandon(&self, mut g: MutexGuard<'_, Inner>, me: usize, why: String) -> ! {
        g.end = End::Abandoned(why);
        self.abandon_with(g, me)
    }

    fn abandon_with(&self, mut g: MutexGuard<'_, Inner>, _me: usize) -> ! {
        g.done = true;
        g.active = false;
        g.gen += 1; // everybody still inside becomes a zombie
        self.done_cv.notify_all();
        drop(g);
        VID.with(|v| v.set(u32::MAX));
        loop {
            std::thread::park();
        }
    }

    fn hb_load(g: &mut Inner, t: usize, addr: usize, acq: bool) {
        if let Some(l) = g.atom.get(&addr).copied() {
            if acq {
                join(&mut g.th[t].c, &l);
            } else {
                join(&mut g.th[t].pend, &l);
            }
        }
    }
}

fn is_acq(o: O) -> bool {
    matches!(o, O::Acquire | O::AcqRel | O::SeqCst)
}
fn is_rel(o: O) -> bool {
    matches!(o, O::Release | O::AcqRel | O::SeqCst)
}

impl Runtime for Rt {
    fn managed(&self) -> bool {
        VID.with(|v| v.get()) != u32::MAX
    }
    fn atomic_pre(&self, addr: usize, op: AtomicOp, _ord: O) {
        self.point(if op == AtomicOp::Load { Pt::Load } else { Pt::Plain });
        let me = self.me();
        let mut g = lock(self);
        g.check_uaf(me, addr, 1, "atomic access");
    }
    fn atomic_post(&self, addr: usize, op: AtomicOp, success: bool, ord: O, old: u64, new: u64) {
        let t = self.me();
        let mut g = lock(self);
        match op {
            AtomicOp::Load => Rt::hb_load(&mut g, t, addr, is_acq(ord)),
            AtomicOp::Store => {
                let l = if is_rel(ord) { g.th[t].c } else { g.th[t].frel };
                g.atom.insert(addr, l);
            }
            AtomicOp::Cas | AtomicOp::Rmw => {
                if !success {
                    Rt::hb_load(&mut g, t, addr, is_acq(ord));
                } else {
                    // for a successful CAS `ord` is the success ordering
                    Rt::hb_load(&mut g, t, addr, is_acq(ord));
                    let add = if is_rel(ord) { g.th[t].c } else { g.th[t].frel };
                    let e = g.atom.entry(addr).or_insert([0; MAXT]);
                    join(e, &add);
                }
            }
        }
        if op == AtomicOp::Cas && success && old == 0 && new == 1 {
            g.th[t].last_cas = addr;
        }
        if op == AtomicOp::Store && new == 0 && g.th[t].holding == addr {
            g.th[t].holding = 0;
        }
        // a store / successful RMW that changes a value is progress for livelock detection -
        // except on a pure counter (an atomic only ever touched by fetch_add, like the seed of
        // the backoff's pseudo-random number), which tells no other thread anything
        if op != AtomicOp::Rmw {
            g.sync_addrs.insert(addr);
        }
        let counter = op == AtomicOp::Rmw && !g.sync_addrs.contains(&addr);
        if success && op != AtomicOp::Load && old != new && !counter {
            for th in g.th.iter_mut() {
                th.consec_yield = 0;
            }
        }
        g.th[t].spinning = false;
        g.bump(t);
    }
    fn fence(&self, ord: O) {
        let t = self.me();
        let mut g = lock(self);
        if is_acq(ord) {
            let p = g.th[t].pend;
            join(&mut g.th[t].c, &p);
        }
        if is_rel(ord) {
            g.th[t].frel = g.th[t].c;
        }
        g.bump(t);
    }
    fn park(&self) {
        let me = self.me();
        self.point(Pt::Plain);
        let mut g = lock(self);
        if g.th[me].token {
            g.th[me].token = false;
            let tc = g.th[me].token_clock;
            join(&mut g.th[me].c, &tc);
            return;
        }
        if g.th[me].holding != 0 && g.mem.len() < 8 {
            let st = g.stamp;
            g.mem.push(MemViolation {
                kind: "wait_in_cs",
                stamp: st,
                vid: me as u8,
                detail: format!("thread {} parks while holding the channel lock", me),
            });
        }
        g.th[me].st = St::Parked;
        g.th[me].parks += 1;
        self.block_and_pass(g, me);
        // resumed: either unparked (token) or spuriously
        let mut g = lock(self);
        if g.th[me].token {
            g.th[me].token = false;
            let tc = g.th[me].token_clock;
            join(&mut g.th[me].c, &tc);
        }
    }
    fn unpark(&self, vid: u32) {
        let managed = self.managed();
        if managed {
            self.point(Pt::Plain);
        }
        let mut g = lock(self);
        let v = vid as usize;
        if v >= g.th.len() || !g.active {
            return;
        }
        let c = if managed {
            let me = self.me();
            let c = g.th[me].c;
            g.bump(me);
            c
        } else {
            [0; MAXT]
        };
        g.th[v].token = true;
        join(&mut g.th[v].token_clock, &c);
        if g.th[v].st == St::Parked {
            g.th[v].st = St::Runnable;
            g.unpark_wakes += 1;
        }
        for th in g.th.iter_mut() {
            th.consec_yield = 0;
        }
    }
    fn current_vid(&self) -> u32 {
        VID.with(|v| v.get())
    }
    fn yield_now(&self) {
        self.point(Pt::Yield);
    }
    fn spin_loop(&self) {
        // a run of spin hints collapses into one yield-type point
        let me = self.me();
        {
            let mut g = lock(self);
            if g.th[me].spinning {
                return;
            }
            g.th[me].spinning = true;
        }
        self.point(Pt::Yield);
    }
    fn sleep(&self, nanos: u64) {
        {
            let mut g = lock(self);
            g.now = g.now.saturating_add(nanos);
        }
        self.point(Pt::Yield);
    }
    fn now(&self) -> u64 {
        self.point(Pt::Plain);
        let mut g = lock(self);
        if g.fair {
            g.now += TICK;
        }
        g.now
    }
    fn parallelism(&self) -> usize {
        lock(self).parallelism
    }
    fn read(&self, addr: usize, len: usize) {
        self.point(Pt::Plain);
        let t = self.me();
        lock(self).access(t, addr, len, false);
    }
    fn write(&self, addr: usize, len: usize) {
        self.point(Pt::Plain);
        let t = self.me();
        lock(self).access(t, addr, len, true);
    }
    fn publish(&self, sig: usize, sig_len: usize, slot: usize, slot_len: usize) {
        let t = self.me() as u8;
        let mut g = lock(self);
        let ov = |r: &Range, a: usize, l: usize| a < r.start + r.len && r.start < a + l;
        g.retired
            .retain(|r| !(ov(r, sig, sig_len) || (slot != 0 && slot_len != 0 && ov(r, slot, slot_len))));
        g.live.retain(|r| r.sig != sig);
        g.live.push(Range {
            start: sig,
            len: sig_len,
            owner: t,
            sig,
            seq: 0,
        });
        if slot != 0 && slot_len != 0 {
            g.live.push(Range {
                start: slot,
                len: slot_len,
                owner: t,
                sig,
                seq: 0,
            });
        }
    }
    fn retire(&self, sig: usize, _sig_len: usize) {
        let mut g = lock(self);
        let mut moved = Vec::new();
        let seq = alloc_seq();
        g.live.retain(|r| {
            if r.sig == sig {
                let mut r2 = *r;
                r2.seq = seq;
                moved.push(r2);
                false
            } else {
                true
            }
        });
        g.retired.extend(moved);
        if g.retired.len() > 64 {
            let n = g.retired.len() - 64;
            g.retired.drain(0..n);
        }
    }
    fn note(&self, kind: u32, arg: usize) {
        if kind == verif::notes::WAKE_ASYNC || kind == verif::notes::WAKE_SYNC_UNPARK {
            // right after the final state store: let the owner run before the wake call
            self.point(Pt::Plain);
        }
        let t = self.me() as u8;
        let mut g = lock(self);
        if kind == verif::notes::LOCK_ACQUIRED || kind == verif::notes::TRY_LOCK_ACQUIRED {
            let a = g.th[t as usize].last_cas;
            g.th[t as usize].holding = a;
        }
        g.stamp += 1;
        let stamp = g.stamp;
        g.notes.push(Note {
            stamp,
            vid: t,
            kind,
            arg,
        });
    }
}

// ---------------------------------------------------------------------------
// harness-facing API
// ---------------------------------------------------------------------------

/// Logical timestamp (advances at every event).
pub fn stamp() -> u64 {
    let mut g = lock(rt());
    g.stamp += 1;
    g.stamp
}

pub fn vid() -> usize {
    VID.with(|v| v.get()) as usize
}

pub fn vnow() -> u64 {
    lock(rt()).now
}

/// Harness-level scheduling point (op boundaries).
pub fn op_point() {
    if rt().managed() {
        rt().point(Pt::Plain);
    }
}

/// Mark progress (an operation returned).
pub fn progress() {
    let mut g = lock(rt());
    for th in g.th.iter_mut() {
        th.consec_yield = 0;
    }
}

pub fn yield_points(n: u32) {
    for _ in 0..n {
        rt().point(Pt::Yield);
    }
}

/// Run `f` while every other thread is suspended; returns the number of
/// scheduling points it consumed.
pub fn run_alone<R>(f: impl FnOnce() -> R) -> (R, u32) {
    let me = vid();
    {
        let mut g = lock(rt());
        g.th[me].uninterruptible = true;
        g.th[me].alone_points = 0;
    }
    let r = f();
    let mut g = lock(rt());
    g.th[me].uninterruptible = false;
    (r, g.th[me].alone_points)
}

/// Like `run_alone`, but the first `k` scheduling points of `f` are scheduled normally
/// (so another thread can slip in) and only the rest runs with everybody else suspended.
/// Returns the points consumed after the switch to alone mode.
pub fn run_alone_after<R>(k: u32, f: impl FnOnce() -> R) -> (R, u32) {
    let me = vid();
    {
        let mut g = lock(rt());
        g.th[me].alone_after = Some(k);
        g.th[me].alone_points = 0;
    }
    let r = f();
    let mut g = lock(rt());
    let pts = if g.th[me].uninterruptible { g.th[me].alone_points } else { 0 };
    g.th[me].uninterruptible = false;
    g.th[me].alone_after = None;
    (r, pts)
}

/// Is the calling virtual thread running with everybody else suspended?
pub fn is_alone() -> bool {
    let me = vid();
    if me == u32::MAX as usize {
        return false;
    }
    let g = lock(rt());
    me < g.th.len() && (g.th[me].uninterruptible || g.th[me].alone_after.is_some())
}

/// Allocate a waker slot owned by the calling virtual thread.
pub fn new_waker() -> u32 {
    let me = vid();
    let mut g = lock(rt());
    g.wakers.push(WakerSt {
        owner: me as u8,
        ..Default::default()
    });
    (g.wakers.len() - 1) as u32
}

/// Scheduling point at the entry of a waker vtable function.
pub fn waker_point() {
    let r = rt();
    if r.managed() {
        r.point(Pt::Plain);
    }
}

/// Called by the harness waker's `wake` (after `waker_point`).
pub fn waker_wake(wid: u32) {
    let r = rt();
    let managed = r.managed();
    let mut g = lock(r);
    if !g.active || wid as usize >= g.wakers.len() {
        return;
    }
    let c = if managed {
        let me = r.me();
        let c = g.th[me].c;
        g.bump(me);
        c
    } else {
        [0; MAXT]
    };
    g.stamp += 1;
    let st = g.stamp;
    let caller = if managed { r.me() as u8 } else { u8::MAX };
    g.notes.push(Note {
        stamp: st,
        vid: caller,
        kind: NOTE_WAKER_FIRED,
        arg: wid as usize,
    });
    let w = &mut g.wakers[wid as usize];
    w.fired += 1;
    join(&mut w.clock, &c);
    let owner = w.owner as usize;
    if g.th[owner].st == St::WaitWaker(wid) {
        g.th[owner].st = St::Runnable;
    }
    for th in g.th.iter_mut() {
        th.consec_yield = 0;
    }
}

pub fn waker_fired(wid: u32) -> u32 {
    lock(rt()).wakers[wid as usize].fired
}

/// Block the calling task until waker `wid` has an unconsumed wake.
pub fn wait_waker(wid: u32) {
    let r = rt();
    let me = r.me();
    r.point(Pt::Plain);
    loop {
        let mut g = lock(r);
        let w = &mut g.wakers[wid as usize];
        if w.fired > w.consumed {
            w.consumed = w.fired;
            let c = w.clock;
            join(&mut g.th[me].c, &c);
            return;
        }
        if g.th[me].forced {
            g.th[me].forced = false;
            return;
        }
        g.th[me].st = St::WaitWaker(wid);
        r.block_and_pass(g, me);
    }
}

/// Forget shadow / retired state for freshly allocated memory.
pub fn fresh(addr: usize, len: usize) {
    let mut g = lock(rt());
    g.retired
        .retain(|r| !(addr < r.start + r.len && r.start < addr + len));
    for b in addr..addr + len {
        g.shadow.remove(&b);
    }
}

/// The harness moved an object (legal for `Unpin` types): every published range that lives
/// inside the old location is dead from now on.
pub fn retire_within(addr: usize, len: usize) {
    let mut g = lock(rt());
    let seq = alloc_seq();
    let mut moved = Vec::new();
    g.live.retain(|r| {
        if r.start >= addr && r.start < addr + len {
            let mut r2 = *r;
            r2.seq = seq;
            moved.push(r2);
            false
        } else {
            true
        }
    });
    g.retired.extend(moved);
}

/// Classification: a stream wait that starts with a fresh waker (stream handed to another task).
pub fn count_stream_handed_over() {
    lock(rt()).stream_handed_over += 1;
}

/// Classification: the harness moved an `Unpin` future / stream between two polls.
pub fn count_moved() {
    lock(rt()).moved_unpin += 1;
}

/// Snapshot of thread states (for the epilogue).
pub fn thread_states() -> Vec<St> {
    lock(rt()).th.iter().map(|t| t.st).collect()
}

/// Rescue helper: wake every parked thread and every waiting task spuriously.
pub fn force_wake_all() {
    let mut g = lock(rt());
    for t in g.th.iter_mut() {
        if matches!(t.st, St::Parked | St::WaitWaker(_)) {
            if matches!(t.st, St::WaitWaker(_)) {
                t.forced = true;
            }
            t.st = St::Runnable;
        }
    }
}

type Job = Box<dyn FnOnce() + Send + 'static>;

struct Pool {
    idle: Vec<mpsc::Sender<(usize, u64, Job)>>,
}

static POOL: Mutex<Pool> = Mutex::new(Pool { idle: Vec::new() });
static RETURN: std::sync::OnceLock<Mutex<mpsc::Sender<mpsc::Sender<(usize, u64, Job)>>>> =
    std::sync::OnceLock::new();
static RETURN_RX: std::sync::OnceLock<Mutex<mpsc::Receiver<mpsc::Sender<(usize, u64, Job)>>>> =
    std::sync::OnceLock::new();

fn spawn_worker() -> mpsc::Sender<(usize, u64, Job)> {
    let (tx, rx) = mpsc::channel::<(usize, u64, Job)>();
    let tx2 = tx.clone();
    let body = move || {
            while let Ok((vid, gen, job)) = rx.recv() {
                let r = rt();
                // wait for the baton
                {
                    let mut g = lock(r);
                    loop {
                        if g.gen != gen {
                            break;
                        }
                        if g.active && g.cur == vid {
                            break;
                        }
                        g = r.cvs[vid].wait(g).unwrap_or_else(|e| e.into_inner());
                    }
                    if g.gen != gen {
                        // execution abandoned before this thread ever ran
                        drop(g);
                        std::mem::forget(job);
                        let ret = RETURN.get().unwrap().lock().unwrap().clone();
                        let _ = ret.send(tx2.clone());
                        continue;
                    }
                    g.th[vid].st = St::Runnable;
                }
                VID.with(|v| v.set(vid as u32));
                GEN.with(|v| v.set(gen));
                let res = catch_unwind(AssertUnwindSafe(job));
                let mut g = lock(r);
                if let Err(p) = res {
                    let msg = if let Some(s) = p.downcast_ref::<&str>() {
                        s.to_string()
                    } else if let Some(s) = p.downcast_ref::<String>() {
                        s.clone()
                    } else {
                        "panic".to_string()
                    };
                    g.panics.push((vid as u8, msg));
                }
                VID.with(|v| v.set(u32::MAX));
                if g.gen == gen && g.active {
                    g.th[vid].st = St::Finished;
                    for th in g.th.iter_mut() {
                        th.consec_yield = 0;
                    }
                    r.block_and_pass(g, vid);
                } else {
                    drop(g);
                }
                let ret = RETURN.get().unwrap().lock().unwrap().clone();
                let _ = ret.send(tx2.clone());
            }
    };
    // thread creation can fail transiently on an overloaded machine (EAGAIN): retry
    let mut body = Some(body);
    for attempt in 0..200 {
        let b = body.take().unwrap();
        // `spawn` consumes the closure even on failure, so probe with a cheap thread first
        match std::thread::Builder::new().stack_size(1 << 16).spawn(|| {}) {
            Ok(h) => {
                let _ = h.join();
                match std::thread::Builder::new().stack_size(1 << 20).spawn(b) {
                    Ok(_) => return tx,
                    Err(e) => panic!("spawn pool thread: {}", e),
                }
            }
            Err(_) => {
                body = Some(b);
                std::thread::sleep(std::time::Duration::from_millis(50 + attempt));
            }
        }
    }
    panic!("spawn pool thread: resources exhausted");
}

/// Run one execution: `bodies[i]` is virtual thread `i`; the last body is the
/// low-priority prober / epilogue thread (runs only when nobody else can).
pub fn run(cfg: Config, bodies: Vec<Job>) -> Outcome {
    install();
    RETURN.get_or_init(|| {
        let (tx, rx) = mpsc::channel();
        RETURN_RX.get_or_init(|| Mutex::new(rx));
        Mutex::new(tx)
    });
    let r = rt();
    let n = bodies.len();
    assert!(n >= 1 && n <= MAXT);
    verif::reset_parallelism();
    let gen;
    {
        let mut g = lock(r);
        let old_gen = g.gen;
        *g = Inner::new();
        g.gen = old_gen + 1;
        gen = g.gen;
        g.sched = cfg.sched.clone();
        g.parallelism = cfg.parallelism.max(1);
        g.budget = if cfg.step_budget == 0 { 300_000 } else { cfg.step_budget };
        g.livelock_yields = if cfg.livelock_yields == 0 { 20_000 } else { cfg.livelock_yields };
        for i in 0..n {
            let mut c = [0u32; MAXT];
            c[i] = 1;
            g.th.push(Th {
                st: St::Runnable, // logically spawned; OS thread attaches when it gets the baton
                token: false,
                token_clock: [0; MAXT],
                c,
                pend: [0; MAXT],
                frel: [0; MAXT],
                low_prio: i == n - 1,
                uninterruptible: false,
                alone_after: None,
                alone_points: 0,
                consec_yield: 0,
                parks: 0,
                spinning: false,
                forced: false,
                spin_streak: 0,
                last_cas: 0,
                holding: 0,
            });
        }
    }
    // hand out jobs
    {
        let mut pool = POOL.lock().unwrap();
        // collect returned workers
        if let Some(rx) = RETURN_RX.get() {
            let rx = rx.lock().unwrap();
            while let Ok(w) = rx.try_recv() {
                pool.idle.push(w);
            }
        }
        for (i, job) in bodies.into_iter().enumerate() {
            let w = pool.idle.pop().unwrap_or_else(spawn_worker);
            w.send((i, gen, job)).expect("pool thread alive");
        }
    }
    // start
    let mut g = lock(r);
    g.active = true;
    let first = g.pick().expect("some thread runnable");
    g.cur = first;
    g.note_switch(first);
    r.cvs[first].notify_all();
    while !g.done {
        g = r.done_cv.wait(g).unwrap_or_else(|e| e.into_inner());
    }
    let out = Outcome {
        end: g.end.clone(),
        notes: std::mem::take(&mut g.notes),
        mem: std::mem::take(&mut g.mem),
        steps: g.steps,
        switches: g.switches,
        seq_digest: g.seq_digest,
        parks: g.th.iter().map(|t| t.parks).sum(),
        unpark_wakes: g.unpark_wakes,
        spurious_unparks: g.spurious_unparks,
        moved_unpin: g.moved_unpin,
        stream_handed_over: g.stream_handed_over,
        final_time: g.now,
        panics: std::mem::take(&mut g.panics),
        livelock: g.livelock,
        sched_used: g.pos.min(g.sched.len()),
        cross_checked: g.cross_checked,
        spin_end_segments: g.pub_spin_end_segments,
    };
    g.active = false;
    out
}
