//! C17: the channel's internal lock (re-exported by the `verif` feature) hammered by
//! 2-4 virtual threads through lock / try_lock / unlock under generated schedules.

use crate::rt;
use common::driver::{CaseOut, Engine};
use common::ops::{parallelism_of, Case};
use proptest::prelude::*;
use proptest::strategy::BoxedStrategy;
use serde_json::json;
use std::cell::UnsafeCell;
use std::hash::{Hash, Hasher};
use std::sync::{Arc, Mutex};

struct Data {
    counter: UnsafeCell<u64>,
    aux: UnsafeCell<[u64; 3]>,
}
unsafe impl Send for Data {}
unsafe impl Sync for Data {}

#[derive(Default)]
struct Log {
    viol: Vec<(String, String)>,
    in_cs: i32,
    holder_since_invoke: u32,
    contended: u32,
    try_failed: u32,
    try_ok: u32,
    locks: u32,
    increments: u64,
    max_try_points: u32,
    hist: Vec<String>,
}

pub struct LockEng;

fn cs(d: &Data, work: u8, log: &Arc<Mutex<Log>>, t: usize) {
    {
        let mut l = log.lock().unwrap();
        if l.in_cs != 0 {
            let n = l.in_cs;
            l.viol.push((
                "overlap".into(),
                format!("thread {} entered the critical section while {} other thread(s) were inside", t, n),
            ));
        }
        l.in_cs += 1;
    }
    for i in 0..(work % 3 + 1) as usize {
        // read - scheduling point - write: an overlap also shows up as a lost update
        let p = d.counter.get();
        kanal::verif::read(p as usize, 8);
        let v = unsafe { *p };
        kanal::verif::write(p as usize, 8);
        unsafe { *p = v + 1 };
        let a = d.aux.get() as *mut u64;
        let a = unsafe { a.add(i % 3) };
        kanal::verif::write(a as usize, 8);
        unsafe { *a = v };
        log.lock().unwrap().increments += 1;
    }
    log.lock().unwrap().in_cs -= 1;
}

fn run_lock_case(case: &Case) -> (Log, rt::Outcome, u64) {
    let nt = case.threads.len().clamp(2, 4);
    let parallelism = parallelism_of(case.cfg[1]);
    let m: Arc<kanal::verif::Mutex<Data>> = Arc::new(kanal::verif::Mutex::new(Data {
        counter: UnsafeCell::new(0),
        aux: UnsafeCell::new([0; 3]),
    }));
    let log = Arc::new(Mutex::new(Log::default()));
    let held = Arc::new(std::sync::atomic::AtomicI32::new(0));
    let mut bodies: Vec<Box<dyn FnOnce() + Send>> = Vec::new();
    for t in 0..nt {
        let ops: Vec<[u8; 4]> = case.threads.get(t).cloned().unwrap_or_default();
        let m = m.clone();
        let log = log.clone();
        let held = held.clone();
        bodies.push(Box::new(move || {
            for op in ops.iter().take(8) {
                rt::op_point();
                let kind = op[0] % 3;
                if kind < 2 {
                    // blocking lock
                    let was_held = held.load(std::sync::atomic::Ordering::Relaxed) > 0;
                    let g = m.lock();
                    held.fetch_add(1, std::sync::atomic::Ordering::Relaxed);
                    {
                        let mut l = log.lock().unwrap();
                        l.locks += 1;
                        if was_held {
                            l.contended += 1;
                        }
                        l.hist.push(format!("t{} lock{}", t, if was_held { " (contended)" } else { "" }));
                    }
                    cs(&g, op[1], &log, t);
                    // linger inside the critical section for a generated number of points
                    rt::yield_points((op[2] % 4) as u32);
                    held.fetch_sub(1, std::sync::atomic::Ordering::Relaxed);
                    drop(g);
                } else {
                    let (g, pts) = rt::run_alone_after((op[3] % 5) as u32, || m.try_lock());
                    {
                        let mut l = log.lock().unwrap();
                        l.max_try_points = l.max_try_points.max(pts);
                        if pts > 8 {
                            l.viol.push((
                                "try_lock_waited".into(),
                                format!("try_lock needed {} scheduling points while every other thread was suspended", pts),
                            ));
                        }
                        l.hist.push(format!("t{} try_lock -> {}", t, g.is_some()));
                    }
                    match g {
                        Some(g) => {
                            held.fetch_add(1, std::sync::atomic::Ordering::Relaxed);
                            log.lock().unwrap().try_ok += 1;
                            cs(&g, op[1], &log, t);
                            held.fetch_sub(1, std::sync::atomic::Ordering::Relaxed);
                            drop(g);
                        }
                        None => log.lock().unwrap().try_failed += 1,
                    }
                }
            }
        }));
    }
    // epilogue thread: nothing to do
    bodies.push(Box::new(|| {}));
    let out = rt::run(
        rt::Config {
            sched: case.sched.clone(),
            parallelism,
            step_budget: 400_000,
            livelock_yields: 30_000,
        },
        bodies,
    );
    let final_counter = if out.end == rt::End::Complete {
        unsafe { *m.lock().counter.get() }
    } else {
        std::mem::forget(m);
        0
    };
    let l = std::mem::take(&mut *log.lock().unwrap());
    (l, out, final_counter)
}

pub fn run_case(case: &Case) -> CaseOut {
    let (mut l, out, fin) = run_lock_case(case);
    let mut co = CaseOut::default();
    for m in out.mem.iter() {
        l.viol.push((
            if m.kind == "race" { "unordered_critical_sections" } else { "uaf" }.into(),
            m.detail.clone(),
        ));
    }
    match &out.end {
        rt::End::Complete => {
            if fin != l.increments {
                l.viol.push((
                    "lost_update".into(),
                    format!("{} increments inside the lock, counter reads {}", l.increments, fin),
                ));
            }
        }
        rt::End::Abandoned(w) if w.contains("uninterruptible") => l.viol.push((
            "try_lock_waited".into(),
            "try_lock did not return while every other thread was suspended (it waits for the holder)".into(),
        )),
        rt::End::Abandoned(w) => l.viol.push((
            "lock_never_acquired".into(),
            format!("a blocking lock() did not return under the fair schedule: {}", w),
        )),
        rt::End::Budget => co.inconclusive = true,
    }
    for (t, m) in out.panics.iter() {
        l.viol.push(("panic".into(), format!("thread {} panicked: {}", t, m)));
    }
    for (p, d) in l.viol.iter() {
        co.viols.push((p.clone(), format!("C17/{}", p), d.clone()));
    }
    co.classes = vec![
        ("locks".into(), l.locks),
        ("contended_locks".into(), l.contended),
        ("try_lock_failed".into(), l.try_failed),
        ("try_lock_ok".into(), l.try_ok),
        ("parallelism_1".into(), (case.cfg[1] & 2 != 0) as u32),
        ("parallelism_2_or_128".into(), (matches!(parallelism_of(case.cfg[1]), 2 | 128)) as u32),
        ("parks".into(), out.parks),
    ];
    if (l.contended >= 1 || l.try_failed >= 1) && !co.inconclusive {
        let mut h = std::collections::hash_map::DefaultHasher::new();
        (case, out.seq_digest).hash(&mut h);
        co.nontrivial = Some(h.finish());
    }
    co.sample = json!({
        "case_hex": case.to_hex(),
        "parallelism": parallelism_of(case.cfg[1]),
        "threads": case.threads.len().clamp(2, 4),
        "history": l.hist.iter().take(40).collect::<Vec<_>>(),
        "steps": out.steps, "switches": out.switches, "end": format!("{:?}", out.end),
    });
    co
}

impl Engine for LockEng {
    type Case = Case;
    fn strategy(&self, _prop: &str, _tier: &str) -> BoxedStrategy<Case> {
        let thread = prop::collection::vec(any::<[u8; 4]>(), 1..=6);
        let threads = prop::collection::vec(thread, 2..=4);
        let sched = prop::collection::vec(any::<u8>(), 0..=96);
        (any::<[u8; 6]>(), threads, sched)
            .prop_map(|(cfg, threads, sched)| Case {
                cfg,
                threads,
                prober: vec![],
                sched,
            })
            .boxed()
    }
    fn run(&self, _prop: &str, case: &Case) -> CaseOut {
        run_case(case)
    }
    fn encode(&self, case: &Case) -> String {
        case.to_hex()
    }
    fn decode(&self, s: &str) -> Case {
        Case::from_hex(s.trim())
    }
}

pub const RULE: &str = "generated programs of 2-4 virtual threads x up to 6 lock / try_lock operations with generated work and linger inside the critical section, reported parallelism 1, 2, 16 or 128, under generated byte-string schedules with a fair tail; try_lock runs with every other thread suspended; non-trivial = at least one blocking lock() was invoked while another thread held the lock, or a try_lock failed; distinct = hash(case, executed thread sequence)";
