pub mod enumerate;
pub mod explain;
pub mod interp;
pub mod lockfuzz;
pub mod oracle;
pub mod payload;
pub mod props;
pub mod rt;

#[global_allocator]
static GLOBAL: rt::TrackingAlloc = rt::TrackingAlloc;

use common::driver::{self, CaseOut, Engine, ParentCfg};
use common::ops::*;
use proptest::prelude::*;
use proptest::strategy::BoxedStrategy;
use serde_json::json;
use std::hash::{Hash, Hasher};
use std::path::PathBuf;

pub struct Conc;

pub fn hash_of<T: Hash>(t: &T) -> u64 {
    let mut h = std::collections::hash_map::DefaultHasher::new();
    t.hash(&mut h);
    h.finish()
}

pub fn short_res(r: &interp::Res) -> String {
    use interp::Res::*;
    match r {
        Stuck => "Stuck".into(),
        Unit => "Ok".into(),
        Bool(b) => format!("Ok({})", b),
        Val(_) => "Ok(value)".into(),
        NoneV => "Ok(None)".into(),
        Count(..) => "Ok(count)".into(),
        Err(e) => format!("Err({:?})", e),
        End => "End".into(),
        Panic(_) => "Panic".into(),
        Dropped(n) => format!("Dropped(after {} poll{})", if *n == 0 { "0".to_string() } else { ">=1".to_string() }, "s"),
        Skip => "Skip".into(),
        Obs(_) => "Obs".into(),
        Done => "Done".into(),
    }
}

pub fn run_case(prop: &str, case: &Case) -> CaseOut {
    let profile_of = std::env::var("VERIF_CASE_PROFILE").unwrap_or_else(|_| prop.to_string());
    let prof = props::profile(&profile_of, &driver::case_tier());
    let prog = case.decode(&prof);
    let out = interp::run_any(&prog);
    oracle::EXPLAIN.with(|e| e.set(prop == "C03" || prop == "C18"));
    let (viols, feat) = oracle::evaluate(&prog, &out);
    let ops = &out.exec.ops;
    let mut co = CaseOut::default();
    for v in viols.iter() {
        let (k, r) = match v.op.and_then(|i| ops.get(i as usize)) {
            Some(o) => (o.k.name().to_string(), short_res(&o.res)),
            None => ("-".into(), "-".into()),
        };
        if props::accepts(prop, v, ops) {
            co.viols.push((v.pred.to_string(), format!("{}/{}/{}/{}", prop, v.pred, k, r), v.detail.clone()));
        } else {
            co.other.push(format!("{}/{}/{}", v.pred, k, r));
        }
    }
    co.inconclusive = out.outcome.end == rt::End::Budget;
    co.classes = feat.c.iter().map(|(k, n)| (k.to_string(), *n)).collect();
    if props::nontrivial(prop, &feat) && !co.inconclusive {
        co.nontrivial = Some(hash_of(&(hash_of(&prog), out.outcome.seq_digest)));
    }
    let hist: Vec<String> = ops
        .iter()
        .filter(|o| o.res != interp::Res::Skip)
        .map(|o| {
            format!(
                "#{} t{} {}{} [{}..{}] -> {:?}{}",
                0,
                o.t,
                o.k.name(),
                if o.implicit { "(implicit)" } else { "" },
                o.inv,
                if o.ret == 0 { "stuck".to_string() } else { o.ret.to_string() },
                o.res,
                match o.sent {
                    Some(id) if id != u32::MAX => format!(" sent={}", id),
                    _ => String::new(),
                }
            )
        })
        .enumerate()
        .map(|(i, s)| s.replacen("#0", &format!("#{}", i), 1))
        .collect();
    co.sample = json!({
        "case_hex": case.to_hex(),
        "program": prog.to_json(),
        "end": format!("{:?}", out.outcome.end),
        "steps": out.outcome.steps,
        "switches": out.outcome.switches,
        "history": hist,
        "async_detail": ops.iter().enumerate().filter(|(_, o)| !o.polls.is_empty()).map(|(i, o)| json!({
            "op": i, "wakers": o.wakers,
            "polls": o.polls.iter().map(|p| format!("[{}..{}] waker {} -> {}{}", p.stamp, p.end, p.waker, if p.ready { "Ready" } else { "Pending" }, if p.spurious { " (spurious)" } else { "" })).collect::<Vec<_>>(),
        })).collect::<Vec<_>>(),
        "waker_fired": out.outcome.notes.iter().filter(|n| n.kind == rt::NOTE_WAKER_FIRED).map(|n| format!("stamp {} waker {} by thread {}", n.stamp, n.arg, n.vid as i8)).collect::<Vec<_>>(),
        "classes": feat.c,
    });
    co
}

impl Engine for Conc {
    type Case = Case;
    fn strategy(&self, prop: &str, tier: &str) -> BoxedStrategy<Case> {
        let p = props::profile(prop, tier);
        let op = any::<[u8; 4]>();
        let thread = prop::collection::vec(op, 0..=p.max_ops);
        let threads = prop::collection::vec(thread, p.threads.0..=p.threads.1);
        let prober = prop::collection::vec(any::<[u8; 4]>(), 0..=p.prober_ops);
        let sched = prop::collection::vec(any::<u8>(), 0..=p.max_sched);
        (any::<[u8; 6]>(), threads, prober, sched)
            .prop_map(|(cfg, threads, prober, sched)| Case {
                cfg,
                threads,
                prober,
                sched,
            })
            .boxed()
    }
    fn run(&self, prop: &str, case: &Case) -> CaseOut {
        run_case(prop, case)
    }
    fn encode(&self, case: &Case) -> String {
        case.to_hex()
    }
    fn decode(&self, s: &str) -> Case {
        Case::from_hex(s.trim())
    }
    fn regressions(&self, prop: &str) -> Vec<(String, Option<String>)> {
        let mut v = Vec::new();
        let dir = PathBuf::from(driver::VERIF).join("regressions").join("conc");
        if let Ok(rd) = std::fs::read_dir(&dir) {
            let mut files: Vec<_> = rd.flatten().map(|e| e.path()).collect();
            files.sort();
            for f in files {
                let name = f.file_name().unwrap().to_string_lossy().to_string();
                if name.starts_with(prop) || name.starts_with("ALL") {
                    if let Ok(s) = std::fs::read_to_string(&f) {
                        if let Ok(j) = serde_json::from_str::<serde_json::Value>(&s) {
                            if let Some(c) = j["case"].as_str() {
                                v.push((c.to_string(), j["profile"].as_str().map(|s| s.to_string())));
                            }
                        }
                    }
                }
            }
        }
        v
    }
}


/// Entry point of the fuzz targets: every predicate of every property, strict.
pub fn fuzz_eval(data: &[u8]) -> Vec<(String, String, String)> {
    static ONCE: std::sync::Once = std::sync::Once::new();
    ONCE.call_once(|| std::panic::set_hook(Box::new(|_| {})));
    let case = Case::from_bytes(data);
    run_case("ALL", &case).viols
}
