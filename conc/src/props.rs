//! Per-property generation profiles, predicate sets and non-trivial rules for the
//! concurrent engine.

use crate::interp::{OpRec, Res};
use crate::oracle::{Feat, Viol};
use common::ops::*;

fn w(list: &[(K, u32)]) -> Vec<(K, u32)> {
    list.to_vec()
}

const SENDS: &[(K, u32)] = &[
    (K::Send, 6),
    (K::SendTimeout, 3),
    (K::SendOptTimeout, 3),
    (K::TrySend, 3),
    (K::TrySendOpt, 2),
    (K::TrySendRt, 1),
    (K::TrySendOptRt, 1),
    (K::AsyncSend, 5),
];
const RECVS: &[(K, u32)] = &[
    (K::Recv, 6),
    (K::RecvTimeout, 3),
    (K::TryRecv, 3),
    (K::TryRecvRt, 1),
    (K::Drain, 2),
    (K::IterNext, 1),
    (K::AsyncRecv, 5),
    (K::StreamNext, 3),
    (K::StreamDrop, 1),
];
const HANDLES: &[(K, u32)] = &[
    (K::CloneH, 2),
    (K::ConvertH, 1),
    (K::DropH, 2),
    (K::Close, 1),
    (K::Observe, 2),
    (K::Yield, 2),
];

fn cat(parts: &[&[(K, u32)]]) -> Vec<(K, u32)> {
    let mut v = Vec::new();
    for p in parts {
        v.extend_from_slice(p);
    }
    v
}

const CAPS_ALL: &[Cap] = &[Cap::N(0), Cap::N(1), Cap::N(2), Cap::N(3), Cap::Unbounded];
const PROBER: &[(K, u32)] = &[(K::Observe, 3), (K::TrySend, 2), (K::TrySendOpt, 1), (K::TryRecv, 2), (K::Drain, 1)];

fn droppable() -> Vec<Pay> {
    vec![Pay::Z0, Pay::ZA, Pay::P1, Pay::P4, Pay::P8, Pay::P16, Pay::P40, Pay::PR, Pay::PBIG, Pay::PA64, Pay::PH]
}

/// The profile of a property.  `"<id>v1"` names the first generation of the profile (the one
/// the regression cases were generated under, so that their bytes keep their meaning); the
/// current one additionally carries a *tail*: every operation kind the focused weight table
/// leaves out gets weight 1 at the end of the table.  Round 6 showed why: changes hidden in a
/// variant absent from the owning property's table (`try_recv_realtime` for C06 / C19,
/// `to_async` for C05) were reported by other checks only.
pub fn profile(prop: &str, tier: &str) -> Profile {
    let (base_name, first_gen) = match prop.strip_suffix("v1") {
        Some(b) => (b, true),
        None => (prop, false),
    };
    let mut p = profile_focused(base_name, first_gen, tier);
    if !first_gen && base_name != "ALL" {
        for k in ALL_K.iter() {
            if *k != K::Skip && !p.weights.iter().any(|(k2, w)| k2 == k && *w > 0) {
                p.weights.push((*k, 1));
            }
        }
    }
    p
}

fn profile_focused(prop: &str, first_gen: bool, tier: &str) -> Profile {
    let thorough = tier == "thorough";
    // small capacities keep "full" easy to reach; a sixth of the cases use larger ones
    let mut caps: Vec<Cap> = Vec::new();
    for c in CAPS_ALL {
        caps.push(*c);
        caps.push(*c);
    }
    caps.extend_from_slice(&[Cap::N(5), Cap::N(9)]);
    if thorough {
        caps.extend_from_slice(&[Cap::N(4), Cap::N(6), Cap::N(8), Cap::N(17), Cap::N(33), Cap::N(70)]);
    }
    let base = Profile {
        name: "base",
        threads: (2, if thorough { 7 } else { 6 }),
        max_ops: if thorough { 10 } else { 6 },
        weights: cat(&[SENDS, RECVS, HANDLES]),
        caps: caps.clone(),
        pays: ALL_PAY.to_vec(),
        max_sched: 96,
        mix_flavours: false,
        prober_ops: 4,
        prober_weights: w(PROBER),
        script_bias: 0,
        prefill: true,
        first_gen,
    };
    match prop {
        "C01" => Profile { name: "C01", ..base },
        "ALL" => {
            let mut pays = ALL_PAY.to_vec();
            pays.push(Pay::PB);
            pays.push(Pay::PB);
            Profile { name: "ALL", pays, ..base }
        }
        "C02" => Profile {
            name: "C02",
            weights: w(&[
                (K::Send, 9),
                (K::SendTimeout, 3),
                (K::AsyncSend, 6),
                (K::TrySend, 2),
                (K::Recv, 5),
                (K::TryRecv, 3),
                (K::RecvTimeout, 2),
                (K::Drain, 3),
                (K::StreamNext, 3),
                (K::AsyncRecv, 3),
                (K::Yield, 2),
                (K::TryRecvRt, 2),
                (K::TrySendRt, 1),
            ]),
            caps: vec![Cap::N(0), Cap::N(1), Cap::N(2)],
            pays: vec![Pay::P1, Pay::P4, Pay::P8, Pay::P16, Pay::P40, Pay::PR, Pay::PBIG],
            ..base
        },
        "C04" => Profile {
            name: "C04",
            weights: w(&[
                (K::Send, 6),
                (K::SendTimeout, 3),
                (K::AsyncSend, 5),
                (K::TrySend, 2),
                (K::SendOptTimeout, 2),
                (K::Recv, 6),
                (K::RecvTimeout, 3),
                (K::AsyncRecv, 5),
                (K::TryRecv, 2),
                (K::Drain, 2),
                (K::StreamNext, 3),
                (K::Yield, 2),
            ]),
            pays: ALL_PAY.to_vec(),
            ..base
        },
        "C05" => Profile {
            name: "C05",
            weights: cat(&[
                SENDS,
                &[
                    (K::Recv, 4),
                    (K::TryRecv, 2),
                    (K::RecvTimeout, 2),
                    (K::AsyncRecv, 3),
                    (K::Drain, 1),
                    (K::Close, 2),
                    (K::DropH, 3),
                    (K::Yield, 1),
                ],
                // "destroyed ... when its last handle goes away" depends on how the handles came
                // about: conversions, clones and streams belong to the history (C05-r6m2)
                if !first_gen { &[(K::ConvertH, 2), (K::CloneH, 1), (K::StreamNext, 1)] } else { &[] },
            ]),
            pays: droppable(),
            ..base
        },
        "C06" => Profile {
            name: "C06",
            weights: w(&[
                (K::Send, 8),
                (K::Recv, 8),
                (K::AsyncSend, 6),
                (K::AsyncRecv, 6),
                (K::StreamNext, 3),
                (K::IterNext, 1),
                (K::Close, 1),
                (K::DropH, 2),
                (K::CloneH, 1),
                (K::Yield, 3),
                (K::TrySend, 1),
                (K::TryRecv, 1),
                // timed operations must also make progress (report Timeout) once their deadline passed
                (K::RecvTimeout, 3),
                (K::SendTimeout, 2),
                (K::SendOptTimeout, 1),
                (K::Drain, 1),
                (K::TrySendRt, 1),
            ]),
            pays: vec![Pay::P4, Pay::P16, Pay::P8, Pay::Z0, Pay::PH],
            max_sched: 128,
            ..base
        },
        "C07" => Profile {
            name: "C07",
            weights: w(&[
                (K::Send, 6),
                (K::SendTimeout, 4),
                (K::SendOptTimeout, 3),
                (K::AsyncSend, 7),
                (K::Recv, 6),
                (K::RecvTimeout, 4),
                (K::AsyncRecv, 7),
                (K::StreamNext, 3),
                (K::TrySend, 2),
                (K::TryRecv, 2),
                (K::Drain, 1),
                (K::Close, 1),
                (K::DropH, 1),
                (K::Yield, 2),
                (K::TrySendRt, 1),
            ]),
            pays: vec![Pay::P1, Pay::P8, Pay::P16, Pay::P40, Pay::PR, Pay::U64, Pay::U128, Pay::PBIG, Pay::PA64],
            max_sched: 200,
            ..base
        },
        "C08" => Profile {
            name: "C08",
            weights: w(&[
                (K::Send, 8),
                (K::SendTimeout, 3),
                (K::TrySend, 5),
                (K::TrySendOpt, 2),
                (K::AsyncSend, 5),
                (K::Recv, 4),
                (K::TryRecv, 2),
                (K::Drain, 2),
                (K::AsyncRecv, 2),
                (K::Observe, 3),
                (K::Yield, 2),
            ]),
            pays: vec![Pay::P4, Pay::P8, Pay::P16, Pay::U32, Pay::Z0, Pay::PBIG, Pay::ZA],
            prober_ops: 6,
            ..base
        },
        "C09" => Profile {
            name: "C09",
            weights: cat(&[
                SENDS,
                RECVS,
                &[(K::CloneH, 4), (K::ConvertH, 4), (K::DropH, 2), (K::Observe, 3), (K::Yield, 2)],
            ]),
            mix_flavours: true,
            ..base
        },
        "C10" => Profile {
            name: "C10",
            weights: cat(&[
                SENDS,
                RECVS,
                &[(K::Close, 8), (K::CloneH, 2), (K::DropH, 2), (K::Observe, 4), (K::Yield, 2)],
            ]),
            pays: droppable(),
            ..base
        },
        "C11" => Profile {
            name: "C11",
            weights: cat(&[
                SENDS,
                RECVS,
                &[(K::CloneH, 6), (K::DropH, 10), (K::ConvertH, 1), (K::Observe, 2), (K::Yield, 2)],
            ]),
            pays: droppable(),
            ..base
        },
        "C12" => Profile {
            name: "C12",
            weights: w(&[
                (K::CloneH, 8),
                (K::ConvertH, 5),
                (K::DropH, 8),
                (K::Close, 1),
                (K::Observe, 8),
                (K::Send, 2),
                (K::Recv, 2),
                (K::TrySend, 1),
                (K::TryRecv, 1),
                (K::Yield, 1),
            ]),
            pays: vec![Pay::P4, Pay::U32],
            prober_weights: w(&[(K::Observe, 1)]),
            ..base
        },
        "C13" => Profile {
            name: "C13",
            weights: w(&[
                (K::SendTimeout, 8),
                (K::SendOptTimeout, 8),
                (K::RecvTimeout, 8),
                (K::Send, 3),
                (K::Recv, 3),
                (K::AsyncSend, 2),
                (K::AsyncRecv, 2),
                (K::TrySend, 2),
                (K::TryRecv, 2),
                (K::Drain, 1),
                (K::Close, 1),
                (K::DropH, 2),
                (K::Yield, 3),
            ]),
            pays: droppable(),
            ..base
        },
        "C14" => Profile {
            name: "C14",
            weights: w(&[
                (K::TrySend, 6),
                (K::TrySendOpt, 4),
                (K::TrySendRt, 5),
                (K::TrySendOptRt, 4),
                (K::TryRecv, 6),
                (K::TryRecvRt, 5),
                (K::Drain, 4),
                (K::Send, 4),
                (K::Recv, 4),
                (K::AsyncSend, 2),
                (K::AsyncRecv, 2),
                (K::Close, 1),
                (K::DropH, 1),
                (K::Observe, 1),
                (K::Yield, 2),
                (K::SendTimeout, 1),
                (K::RecvTimeout, 1),
                (K::CloneH, 1),
            ]),
            pays: droppable(),
            max_sched: 200,
            prober_ops: 6,
            ..base
        },
        "C15" => Profile {
            name: "C15",
            weights: w(&[
                (K::AsyncSend, 10),
                (K::AsyncRecv, 10),
                (K::StreamNext, 4),
                (K::StreamDrop, 1),
                (K::Send, 4),
                (K::Recv, 4),
                (K::TrySend, 2),
                (K::TryRecv, 2),
                (K::SendTimeout, 1),
                (K::RecvTimeout, 1),
                (K::Drain, 1),
                (K::Close, 1),
                (K::DropH, 1),
                (K::Yield, 3),
            ]),
            pays: droppable(),
            max_sched: 200,
            script_bias: 1,
            ..base
        },
        "C16" => Profile {
            name: "C16",
            weights: w(&[
                (K::AsyncSend, 9),
                (K::AsyncRecv, 9),
                (K::StreamNext, 9),
                (K::Send, 4),
                (K::Recv, 4),
                (K::TrySend, 3),
                (K::TryRecv, 2),
                (K::Close, 1),
                (K::DropH, 2),
                (K::Yield, 3),
            ]),
            pays: vec![Pay::P1, Pay::P4, Pay::P8, Pay::P16, Pay::P40, Pay::PR],
            script_bias: 2,
            ..base
        },
        "C19" => Profile {
            name: "C19",
            weights: w(&[
                (K::Drain, 10),
                (K::Send, 8),
                (K::AsyncSend, 6),
                (K::SendTimeout, 3),
                (K::TrySend, 3),
                (K::Recv, 2),
                (K::AsyncRecv, 2),
                (K::Close, 1),
                (K::DropH, 2),
                (K::Yield, 3),
                // what the other receive variants leave behind is what the next drain finds
                (K::TryRecvRt, if first_gen { 0 } else { 2 }),
                (K::TryRecv, if first_gen { 0 } else { 1 }),
                (K::RecvTimeout, if first_gen { 0 } else { 1 }),
                (K::StreamNext, if first_gen { 0 } else { 1 }),
            ]),
            caps: vec![Cap::N(0), Cap::N(1), Cap::N(2), Cap::N(3), Cap::Unbounded],
            pays: vec![Pay::P1, Pay::P4, Pay::P8, Pay::P16, Pay::P40, Pay::PR, Pay::Z0, Pay::U32, Pay::U64, Pay::PBIG],
            ..base
        },
        // C18 on the controlled runtime: ONE program thread (+ prober).  The lock-step engine
        // runs on the unhooked crate and can only report a call that never returns as a hang
        // (inconclusive); here the same single-thread histories run under the scheduler, so
        // such a call is a deterministic livelock / illegitimately stuck operation, and the
        // complete result vector must be explainable by the atomic reference channel (for one
        // thread that is plain sequential equivalence).
        "C18" => Profile {
            name: "C18",
            threads: (1, 1),
            max_ops: if thorough { 14 } else { 10 },
            weights: cat(&[SENDS, RECVS, HANDLES]),
            pays: vec![Pay::P4, Pay::P8, Pay::P16, Pay::PR],
            caps: vec![Cap::N(0), Cap::N(1), Cap::N(2), Cap::N(3), Cap::Unbounded],
            prober_ops: 3,
            max_sched: 16,
            prefill: false,
            ..base
        },
        "C03" => Profile {
            name: "C03",
            threads: (2, 4),
            max_ops: 4,
            weights: cat(&[SENDS, RECVS, HANDLES]),
            pays: vec![Pay::P4, Pay::P16],
            caps: vec![Cap::N(0), Cap::N(1), Cap::N(2), Cap::Unbounded],
            prober_ops: 3,
            // the explainability search is exponential in the number of operations (tried: with
            // a backlog of 24 / 70 sends the quick tier did not finish within 30 minutes)
            prefill: false,
            ..base
        },
        _ => base,
    }
}

const LEDGER_ALL: &[&str] = &[
    "dup_recv",
    "recv_after_failed_send",
    "lost_value",
    "leak",
    "double_drop",
    "drop_of_unknown_value",
    "corrupt_value",
    "option_not_taken_on_success",
    "option_taken_on_failure",
];
const PROGRESS: &[&str] = &["stuck_illegit", "stale_waker", "livelock", "not_released", "waiter_survived_close"];
const MEMORY: &[&str] = &["race", "uaf", "dead_waker_used"];

fn kind_filter(prop: &str) -> Option<fn(&OpRec) -> bool> {
    match prop {
        "C13" => Some(|o| o.k.is_timed()),
        "C14" => Some(|o| o.k.is_try()),
        "C15" => Some(|o| o.k.is_async() && matches!(o.res, Res::Dropped(_))),
        _ => None,
    }
}

/// Does violation `v` belong to property `prop`'s own predicate set?
pub fn accepts(prop: &str, v: &Viol, ops: &[OpRec]) -> bool {
    let p = v.pred;
    if p == "panic" {
        return true;
    }
    if prop == "ALL" || std::env::var("VERIF_ACCEPT_ALL").is_ok() {
        // silence hunting: every predicate under this profile
        return true;
    }
    let in_list = |l: &[&str]| l.contains(&p);
    let opk = v.op.and_then(|i| ops.get(i as usize));
    match prop {
        // (a value that was received or handed back AND destroyed by the library has two fates)
        "C01" => in_list(&["dup_recv", "recv_after_failed_send", "lost_value", "corrupt_value", "drop_of_unknown_value", "double_drop"]),
        "C02" => in_list(&["fifo", "receiver_order"]),
        "C04" => {
            in_list(&["corrupt_value", "drop_of_unknown_value", "race"])
                // a zero-sized value has no bits to compare: the only way to receive a stale one is
                // to receive a value whose destructor has already run
                || (p == "double_drop" && opk.is_none() && v.detail.starts_with("zero-sized payloads"))
        }
        "C05" => in_list(LEDGER_ALL),
        "C06" => in_list(PROGRESS),
        "C07" => in_list(MEMORY),
        "C08" => in_list(&[
            "capacity_exceeded",
            "len_exceeds_capacity",
            "unbounded_send_blocked",
            "unbounded_send_refused",
            "unbounded_reports_bounded",
            "capacity_misreported",
            "quiescent_try_send_mismatch",
            "quiescent_observer_mismatch",
        ]),
        "C09" => {
            in_list(LEDGER_ALL)
                || in_list(PROGRESS)
                || in_list(MEMORY)
                || in_list(&["fifo", "count_mismatch", "quiescent_observer_mismatch"])
        }
        "C10" => in_list(&[
            "close_twice_ok",
            "op_after_close",
            "close_left_value_alive",
            "waiter_survived_close",
            "not_released",
        ]) || (p == "stuck_illegit" && v.detail.contains("the channel is closed"))
            // "the first close() succeeds": a close() that spins for ever does not
            // and so does an operation begun after close() returned: it must fail, not hang
            || ((p == "livelock" || p == "waited_inside_critical_section")
                && opk.map_or(false, |o| {
                    o.k == K::Close
                        || ops.iter().any(|c| c.k == K::Close && c.res == Res::Unit && c.ret != 0 && c.ret < o.inv)
                }))
            // the fate of values of operations that were pending at, or begun after, a close
            || (in_list(LEDGER_ALL) && {
                let close_inv = ops
                    .iter()
                    .filter(|o| o.k == K::Close && o.res == Res::Unit)
                    .map(|o| o.inv)
                    .min();
                match (close_inv, opk) {
                    (Some(ci), Some(o)) => o.ret == 0 || o.ret > ci,
                    _ => false,
                }
            }),
        "C11" => {
            in_list(&[
                "disconnect_while_handle_alive",
                "send_closed_before_drained",
                "end_before_drained",
                "send_after_disconnect",
                "recv_after_disconnect",
                "recv_after_failed_send",
            ]) || (p == "stuck_illegit" && v.detail.contains("handle is left"))
                // the drop of a handle (last of its side or not) must itself return
                || ((p == "livelock" || p == "waited_inside_critical_section") && opk.map(|o| o.k == K::DropH).unwrap_or(false))
                // an operation that was in flight while a handle of the other side was dropped must
                // end with an error or a genuine value, its payload accounted for
                || ((in_list(LEDGER_ALL) || p == "corrupt_value")
                    && !ops.iter().any(|c| c.k == K::Close && c.res == Res::Unit)
                    && opk
                        .map(|o| {
                            (o.k.is_send() || o.k.is_recv())
                                && ops.iter().any(|d| {
                                    d.k == K::DropH
                                        && d.side_send == Some(!o.k.is_send())
                                        && d.inv < if o.ret == 0 { u64::MAX } else { o.ret }
                                        && o.inv < if d.ret == 0 { u64::MAX } else { d.ret }
                                })
                        })
                        .unwrap_or(false))
                // senders released by / failing after the disconnect keep or drop their value once
                || (in_list(LEDGER_ALL)
                    && opk
                        .map(|o| {
                            o.k.is_send()
                                && matches!(
                                    o.res,
                                    Res::Err(crate::interp::E::ReceiveClosed) | Res::Err(crate::interp::E::Closed)
                                )
                                && !ops.iter().any(|c| c.k == K::Close && c.res == Res::Unit)
                        })
                        .unwrap_or(false))
        }
        "C12" => in_list(&["count_mismatch", "quiescent_observer_mismatch"]),
        "C13" => {
            in_list(&["timeout_early", "uaf"])
                || (in_list(LEDGER_ALL) && opk.map(|o| o.k.is_timed()).unwrap_or(false))
                || (p == "stuck_illegit" && opk.map(|o| o.k.is_timed()).unwrap_or(false))
                // zero-sized payloads are accounted by count only (no operation to blame): the
                // imbalance is this property's when a timed send of the program timed out
                || (in_list(LEDGER_ALL)
                    && opk.is_none()
                    && v.detail.starts_with("zero-sized payloads")
                    && ops.iter().any(|o| o.k.is_timed() && o.k.is_send() && o.res == Res::Err(crate::interp::E::Timeout)))
                // a timed operation that spins for ever never reports its outcome
                || ((p == "livelock" || p == "waited_inside_critical_section") && opk.map(|o| o.k.is_timed()).unwrap_or(false))
                || in_list(&["quiescent_try_send_mismatch", "quiescent_try_recv_mismatch", "quiescent_drain_mismatch"])
        }
        "C14" => {
            in_list(&[
                "try_waited",
                "realtime_unbounded",
                "realtime_done_without_lock",
                "waited_inside_critical_section",
                // drain_into "reports exactly what moved"
                "drain_count_mismatch",
                "drained_sender_failed",
                "quiescent_drain_mismatch",
            ])
                || (in_list(LEDGER_ALL) && opk.map(|o| o.k.is_try()).unwrap_or(false))
                || (p == "stuck_illegit" && opk.map(|o| o.k.is_try()).unwrap_or(false))
                || in_list(&["quiescent_try_send_mismatch", "quiescent_try_recv_mismatch", "quiescent_observer_mismatch"])
        }
        "C15" => {
            in_list(&["uaf", "fifo", "receiver_order", "dup_recv", "corrupt_value", "drop_of_unknown_value"])
                || (in_list(LEDGER_ALL) && opk.map(|o| o.k.is_async()).unwrap_or(false))
                // zero-sized payloads are accounted by count only: the imbalance is this property's
                // when a polled future of the program was dropped
                || (in_list(LEDGER_ALL)
                    && opk.is_none()
                    && v.detail.starts_with("zero-sized payloads")
                    && ops.iter().any(|o| o.k.is_async() && matches!(o.res, Res::Dropped(n) if n >= 1)))
                // "dropping a future is safe": a drop that never returns is not
                || ((p == "livelock" || p == "waited_inside_critical_section")
                    && opk.map(|o| o.k.is_async() && o.dropping).unwrap_or(false))
        }
        "C16" => in_list(&[
            "stale_waker",
            "no_panic_after_done",
            "stream_resumed_after_end",
            "end_before_drained",
            "dup_recv",
            "corrupt_value",
            "drop_of_unknown_value",
        ]) || (p == "fifo" && opk.map(|o| o.k == K::StreamNext).unwrap_or(false))
            || (p == "livelock" && v.detail.contains("inside a poll")),
        "C19" => in_list(&[
            "drain_prefix_or_error_append",
            "drain_count_mismatch",
            "drained_sender_failed",
            "drain_missed_value",
            "quiescent_drain_mismatch",
        ]) || (p == "try_waited" && opk.map(|o| o.k == K::Drain).unwrap_or(false))
            || (p == "fifo" && opk.map(|o| o.k == K::Drain).unwrap_or(false)),
        "C03" => in_list(&["not_explainable_by_atomic_channel"]),
        "C18" => {
            in_list(&["not_explainable_by_atomic_channel", "quiescent_observer_mismatch", "quiescent_try_send_mismatch", "quiescent_drain_mismatch", "count_mismatch"])
                || in_list(PROGRESS)
        }
        _ => {
            let _ = kind_filter;
            false
        }
    }
}

/// Non-trivial rule (text, predicate over the measured classes).
pub fn nontrivial(prop: &str, f: &Feat) -> bool {
    let g = |k: &str| f.get(k);
    let handoffs = g("handoff_write") + g("handoff_read");
    match prop {
        "C01" => (handoffs >= 1 || g("refill") >= 1) && g("ops") >= 4,
        "C02" => g("ordered_pairs_both_registered") >= 1 || g("refill") >= 1 || g("registered_sender_cancelled") >= 1,
        "C04" => handoffs >= 1,
        "C05" => g("failed_send") >= 1 || g("future_drop_polled") >= 1 || g("reg_send_sync") + g("reg_send_async") >= 1,
        "C06" => g("parked") >= 1 || g("async_waiter_sync_peer") >= 1 || g("terminate_async_waiter") >= 1,
        "C07" => g("cross_thread_accesses") >= 1 && g("preemptive") >= 1,
        "C08" => g("full_with_sender_pending") >= 1 || g("rendezvous_success") >= 1 || g("prober_try_send_refused") >= 1,
        "C09" => g("sync_waiter_async_peer") >= 1 || g("async_waiter_sync_peer") >= 1 || g("convert") + g("clone_cross") >= 1,
        "C10" => g("close_ok") >= 1 && (g("close_with_waiter") >= 1 || g("destroyed_by_close") >= 1 || g("close_with_inflight") >= 1),
        "C11" => g("last_drop_with_waiter") >= 1 || g("send_closed_seen") + g("receive_closed_seen") >= 1,
        "C12" => g("observe") >= 1 && (g("clone_cross") + g("convert") >= 1),
        "C13" => g("timeout_while_registered") >= 1 || g("handoff_to_timed_waiter") >= 1,
        "C14" => g("rt_alone_lock_held") >= 1 || g("rt_lock_busy") >= 1 || g("prober_try_send_refused") >= 1 || g("rt_alone") >= 1,
        "C15" => g("future_drop_polled") >= 1,
        "C16" => g("spurious_polls") >= 1 || g("waker_changes") >= 1 || g("stream_second_wait") >= 1,
        "C19" => g("drain_took_blocked_sender") >= 1,
        "C03" => g("explained") >= 1 && g("overlapping_ops") >= 1 && g("preemptive") >= 1,
        "C18" => g("explained") >= 1 && g("ops") >= 5 && (g("reg_send_sync") + g("reg_send_async") + g("reg_recv_sync") + g("reg_recv_async") >= 1),
        _ => true,
    }
}

pub fn rule_text(prop: &str) -> &'static str {
    match prop {
        "C01" => "cases = (config, per-thread op lists over the whole send/receive alphabet, prober ops, schedule bytes) generated by proptest and run on the controlled scheduler; non-trivial = at least one direct hand-off or buffer refill happened and >= 4 operations executed; distinct = hash(decoded program, executed thread sequence)",
        "C02" => "generated programs with tagged payloads on capacities {0,1,2}; non-trivial = two delivered sends were ordered while both were registered in the waiting list, or a refill happened, or a registered sender was removed by timeout/cancel; distinct = hash(program, thread sequence)",
        "C04" => "generated programs over every payload class; non-trivial = a value crossed by a direct hand-off (write into a blocked receiver or read out of a blocked sender); distinct = hash(program, thread sequence)",
        "C05" => "generated programs weighted to failing sends with droppable payloads; non-trivial = a send-like op failed / was refused / timed out / was cancelled after a poll, or a send went through the waiting list; distinct = hash(program, thread sequence)",
        "C06" => "generated blocking/awaiting programs under schedules with long run lengths and spurious unparks; non-trivial = a thread actually parked, or an async waiter was completed by a sync peer or by termination; distinct = hash(program, thread sequence)",
        "C07" => "generated programs with stack waiters, timed waiters and scripted futures; non-trivial = at least one cross-thread access into another operation's published signal/slot was checked by the race and lifetime detectors in a preemptive schedule; distinct = hash(program, thread sequence)",
        "C08" => "generated send-heavy programs on every capacity; non-trivial = the buffer was full while a further sender was pending, or a capacity-0 send succeeded by rendezvous, or the prober's try_send was refused at a quiescent point; distinct = hash(program, thread sequence)",
        "C09" => "generated programs where every thread owns both flavours of its sides; non-trivial = a sync waiter was completed by an async peer or vice versa, or a conversion / cross-flavour clone was executed; distinct = hash(program, thread sequence)",
        "C10" => "generated programs with frequent close(); non-trivial = a close() succeeded while a waiter was registered, a value was buffered (and destroyed by it) or another operation was in flight; distinct = hash(program, thread sequence)",
        "C11" => "generated clone/drop-heavy programs; non-trivial = the last handle of a side was dropped while a waiter was registered, or a disconnect error was observed; distinct = hash(program, thread sequence)",
        "C12" => "generated clone/convert/drop/close programs with observers from 2-4 threads; non-trivial = a count was observed in a run with a cross-flavour clone or conversion; distinct = hash(program, thread sequence)",
        "C13" => "generated timed operations with virtual-clock jumps in the schedule; non-trivial = a deadline expired while the operation was registered, or a peer handed off to a registered timed waiter; distinct = hash(program, thread sequence)",
        "C14" => "generated try_/realtime/drain operations, realtime ones optionally run while every other thread is suspended at an arbitrary point; non-trivial = a realtime op ran alone (lock held by a suspended peer counted separately), met a busy lock, or a try_send was refused at a quiescent point; distinct = hash(program, thread sequence)",
        "C15" => "fault enumeration over cancellation points: generated async scripts drop futures/streams after k polls and n yield points; non-trivial = a future was dropped after it had been polled (pending or claimed); distinct = hash(program, thread sequence)",
        "C16" => "generated poll scripts (spurious polls, waker changes, poll after completion, repeated stream waits) with concurrent peers; non-trivial = a spurious poll, a waker change or a second wait on one stream happened; distinct = hash(program, thread sequence)",
        "C19" => "generated drain_into calls with sentinel-prefixed vectors racing blocked/pending senders; non-trivial = a drain took at least one value from a blocked or pending sender; distinct = hash(program, thread sequence)",
        "C18" => "single-thread programs (one program thread, <= 10 calls over the whole API, + prober) on the controlled runtime: the complete result vector must be explainable by the atomic reference channel (sequential equivalence for one thread) and no call may livelock or stay stuck illegitimately; non-trivial = at least 5 calls, an operation registered in the waiting list, and an explanation was found; distinct = hash(program, thread sequence)",
        "C03" => "small generated programs (2-3 threads x <= 4 ops + prober) over the whole API incl. observers, close and handle drops, run under fine-grained generated schedules; the complete vector of observed results (observer reads split into their separate lock acquisitions) is searched for an explaining interleaving of atomic reference-channel steps (register / complete / timeout / cancel steps for blocking operations), constrained only by per-thread program order; non-trivial = operations of different threads overlapped in a preemptive schedule and an explanation was found (so the search was exercised); distinct = hash(program, thread sequence); searches that exhaust their 300k-state budget are inconclusive",
        _ => "generated programs",
    }
}
