//! Identity-tagged, checksummed, drop-counted payloads of every size class, and the
//! ledger that records what happened to each of them.

use crate::rt;
use std::cell::Cell;
use std::sync::Mutex;

pub const ZST_ID: u32 = u32::MAX;

#[derive(Clone, Debug)]
pub struct DropRec {
    pub stamp: u64,
    pub vid: u32,
    pub in_op: u32, // global op index or u32::MAX
    pub harness: bool,
}

#[derive(Clone, Debug, Default)]
pub struct PayRec {
    pub created: bool,
    pub by_op: u32,
    pub recv_by: Vec<u32>,
    pub drops: Vec<DropRec>,
    /// handed back through an Option / still owned by the harness
    pub returned: bool,
    pub corrupt: bool,
}

#[derive(Default)]
pub struct Ledger {
    pub pays: Vec<PayRec>,
    pub zst_created: u32,
    pub zst_received: u32,
    pub zst_dropped_by_kanal: u32,
    pub zst_dropped_by_harness: u32,
    pub unknown_drops: Vec<(u64, u64)>, // (raw id, stamp)
    pub corrupt_received: Vec<(u32, u32)>, // (op, claimed id)
}

pub static LEDGER: Mutex<Ledger> = Mutex::new(Ledger {
    pays: Vec::new(),
    zst_created: 0,
    zst_received: 0,
    zst_dropped_by_kanal: 0,
    zst_dropped_by_harness: 0,
    unknown_drops: Vec::new(),
    corrupt_received: Vec::new(),
});

thread_local! {
    pub static CUR_OP: Cell<u32> = const { Cell::new(u32::MAX) };
    pub static HARNESS_DROP: Cell<bool> = const { Cell::new(false) };
}
static SALT: std::sync::atomic::AtomicU64 = std::sync::atomic::AtomicU64::new(0);

pub fn ledger() -> std::sync::MutexGuard<'static, Ledger> {
    LEDGER.lock().unwrap_or_else(|e| e.into_inner())
}

pub fn reset(salt: u64) {
    *ledger() = Ledger::default();
    SALT.store(salt, std::sync::atomic::Ordering::Relaxed);
}
fn salt() -> u64 {
    SALT.load(std::sync::atomic::Ordering::Relaxed)
}

#[inline]
pub fn mix(id: u32, i: u32) -> u64 {
    let mut x = (id as u64) << 32 | (i as u64);
    x ^= salt().wrapping_mul(0x9E3779B97F4A7C15);
    x = (x ^ (x >> 30)).wrapping_mul(0xbf58476d1ce4e5b9);
    x = (x ^ (x >> 27)).wrapping_mul(0x94d049bb133111eb);
    x ^ (x >> 31)
}

fn record_drop(id: u32) {
    let harness = HARNESS_DROP.with(|h| h.get());
    let in_op = CUR_OP.with(|c| c.get());
    let v = rt::vid() as u32;
    let stamp = if rt::vid() != u32::MAX as usize { rt::stamp() } else { u64::MAX };
    let mut l = ledger();
    if id == ZST_ID {
        if harness {
            l.zst_dropped_by_harness += 1;
        } else {
            l.zst_dropped_by_kanal += 1;
        }
        return;
    }
    if (id as usize) < l.pays.len() && l.pays[id as usize].created {
        l.pays[id as usize].drops.push(DropRec {
            stamp,
            vid: v,
            in_op,
            harness,
        });
    } else {
        l.unknown_drops.push((id as u64, stamp));
    }
}

pub fn new_id(by_op: u32, zst: bool) -> u32 {
    let mut l = ledger();
    if zst {
        l.zst_created += 1;
        return ZST_ID;
    }
    l.pays.push(PayRec {
        created: true,
        by_op,
        ..Default::default()
    });
    (l.pays.len() - 1) as u32
}

pub fn harness_drop<T>(v: T) {
    HARNESS_DROP.with(|h| h.set(true));
    drop(v);
    HARNESS_DROP.with(|h| h.set(false));
}

pub trait Payload: Send + Sized + Unpin + 'static {
    const NAME: &'static str;
    const DROPPABLE: bool;
    const ZST: bool = false;
    /// the destructor re-enters the channel
    const REENTRANT: bool = false;
    fn make(id: u32) -> Self;
    /// identity claimed by the bytes
    fn id(&self) -> u32;
    /// every non-padding byte is what `make(id)` produced
    fn verify(&self) -> bool;
}

macro_rules! drop_impl {
    ($t:ty) => {
        impl Drop for $t {
            fn drop(&mut self) {
                record_drop(Payload::id(self));
            }
        }
    };
}

pub struct Z0;
impl Payload for Z0 {
    const NAME: &'static str = "Z0";
    const DROPPABLE: bool = true;
    const ZST: bool = true;
    fn make(_id: u32) -> Self {
        Z0
    }
    fn id(&self) -> u32 {
        ZST_ID
    }
    fn verify(&self) -> bool {
        true
    }
}
drop_impl!(Z0);

#[repr(align(64))]
pub struct ZA;
impl Payload for ZA {
    const NAME: &'static str = "ZA";
    const DROPPABLE: bool = true;
    const ZST: bool = true;
    fn make(_id: u32) -> Self {
        ZA
    }
    fn id(&self) -> u32 {
        ZST_ID
    }
    fn verify(&self) -> bool {
        (self as *const ZA as usize) % 64 == 0
    }
}
drop_impl!(ZA);

pub struct P1(u8);
impl Payload for P1 {
    const NAME: &'static str = "P1";
    const DROPPABLE: bool = true;
    fn make(id: u32) -> Self {
        P1(id as u8)
    }
    fn id(&self) -> u32 {
        self.0 as u32
    }
    fn verify(&self) -> bool {
        true
    }
}
drop_impl!(P1);

/// Odd sizes below the pointer size (3, 5, 6, 7 bytes, alignment 1): byte 0 is the identity,
/// the others are derived from it.  A hand-off that copies "by units" and drops the tail byte
/// only shows with these (C04-r7m1).
macro_rules! odd_payload {
    ($name:ident, $n:expr, $s:expr) => {
        pub struct $name([u8; $n]);
        impl Payload for $name {
            const NAME: &'static str = $s;
            const DROPPABLE: bool = true;
            fn make(id: u32) -> Self {
                let mut b = [0u8; $n];
                b[0] = id as u8;
                for i in 1..$n {
                    b[i] = (mix(id & 0xff, i as u32) as u8) | 1;
                }
                $name(b)
            }
            fn id(&self) -> u32 {
                self.0[0] as u32
            }
            fn verify(&self) -> bool {
                (1..$n).all(|i| self.0[i] == (mix(self.0[0] as u32, i as u32) as u8) | 1)
            }
        }
        drop_impl!($name);
    };
}
odd_payload!(P3, 3, "P3");
odd_payload!(P5, 5, "P5");
odd_payload!(P6, 6, "P6");
odd_payload!(P7, 7, "P7");

pub struct P4 {
    id: u16,
    chk: u16,
}
impl Payload for P4 {
    const NAME: &'static str = "P4";
    const DROPPABLE: bool = true;
    fn make(id: u32) -> Self {
        P4 {
            id: id as u16,
            chk: mix(id, 0) as u16,
        }
    }
    fn id(&self) -> u32 {
        self.id as u32
    }
    fn verify(&self) -> bool {
        self.chk == mix(self.id as u32, 0) as u16
    }
}
drop_impl!(P4);

pub struct P8 {
    id: u32,
    chk: u32,
}
impl Payload for P8 {
    const NAME: &'static str = "P8";
    const DROPPABLE: bool = true;
    fn make(id: u32) -> Self {
        P8 {
            id,
            chk: mix(id, 0) as u32,
        }
    }
    fn id(&self) -> u32 {
        self.id
    }
    fn verify(&self) -> bool {
        self.chk == mix(self.id, 0) as u32
    }
}
drop_impl!(P8);

pub struct P16 {
    id: u32,
    b: [u8; 12],
}
impl Payload for P16 {
    const NAME: &'static str = "P16";
    const DROPPABLE: bool = true;
    fn make(id: u32) -> Self {
        let mut b = [0u8; 12];
        for (i, x) in b.iter_mut().enumerate() {
            *x = mix(id, i as u32) as u8;
        }
        P16 { id, b }
    }
    fn id(&self) -> u32 {
        self.id
    }
    fn verify(&self) -> bool {
        (0..12).all(|i| self.b[i] == mix(self.id, i as u32) as u8)
    }
}
drop_impl!(P16);

#[repr(C)]
pub struct P40 {
    a: u8,
    b: u64,
    c: u16,
    d: [u64; 2],
    id: u32,
}
impl Payload for P40 {
    const NAME: &'static str = "P40";
    const DROPPABLE: bool = true;
    fn make(id: u32) -> Self {
        P40 {
            a: mix(id, 1) as u8,
            b: mix(id, 2),
            c: mix(id, 3) as u16,
            d: [mix(id, 4), mix(id, 5)],
            id,
        }
    }
    fn id(&self) -> u32 {
        self.id
    }
    fn verify(&self) -> bool {
        let id = self.id;
        self.a == mix(id, 1) as u8
            && self.b == mix(id, 2)
            && self.c == mix(id, 3) as u16
            && self.d == [mix(id, 4), mix(id, 5)]
    }
}
drop_impl!(P40);

pub struct PR {
    a: u8,
    b: u64,
    c: u16,
    id: u32,
}
impl Payload for PR {
    const NAME: &'static str = "PR";
    const DROPPABLE: bool = true;
    fn make(id: u32) -> Self {
        PR {
            a: mix(id, 1) as u8,
            b: mix(id, 2),
            c: mix(id, 3) as u16,
            id,
        }
    }
    fn id(&self) -> u32 {
        self.id
    }
    fn verify(&self) -> bool {
        let id = self.id;
        self.a == mix(id, 1) as u8 && self.b == mix(id, 2) && self.c == mix(id, 3) as u16
    }
}
drop_impl!(PR);

/// 1 KiB payload: exercises the by-address path with a large copy.
pub struct PBIG {
    id: u32,
    b: [u8; 1020],
}
impl Payload for PBIG {
    const NAME: &'static str = "PBIG";
    const DROPPABLE: bool = true;
    fn make(id: u32) -> Self {
        let mut b = [0u8; 1020];
        for (i, x) in b.iter_mut().enumerate() {
            *x = mix(id, (i % 61) as u32) as u8 ^ (i as u8);
        }
        PBIG { id, b }
    }
    fn id(&self) -> u32 {
        self.id
    }
    fn verify(&self) -> bool {
        self.b.iter().enumerate().all(|(i, x)| *x == mix(self.id, (i % 61) as u32) as u8 ^ (i as u8))
    }
}
drop_impl!(PBIG);

/// 8 200 bytes: larger than a page, larger than 8 KiB.
pub struct PHUGE {
    id: u32,
    b: [u8; 8196],
}
impl Payload for PHUGE {
    const NAME: &'static str = "PHUGE";
    const DROPPABLE: bool = true;
    fn make(id: u32) -> Self {
        let mut b = [0u8; 8196];
        for (i, x) in b.iter_mut().enumerate() {
            *x = mix(id, (i % 61) as u32) as u8 ^ (i as u8) ^ ((i >> 8) as u8);
        }
        PHUGE { id, b }
    }
    fn id(&self) -> u32 {
        self.id
    }
    fn verify(&self) -> bool {
        self.b
            .iter()
            .enumerate()
            .all(|(i, x)| *x == mix(self.id, (i % 61) as u32) as u8 ^ (i as u8) ^ ((i >> 8) as u8))
    }
}
drop_impl!(PHUGE);

/// Over-aligned non-zero-sized payload.
#[repr(align(64))]
pub struct PA64 {
    id: u32,
    b: [u8; 20],
}
impl Payload for PA64 {
    const NAME: &'static str = "PA64";
    const DROPPABLE: bool = true;
    fn make(id: u32) -> Self {
        let mut b = [0u8; 20];
        for (i, x) in b.iter_mut().enumerate() {
            *x = mix(id, i as u32) as u8;
        }
        PA64 { id, b }
    }
    fn id(&self) -> u32 {
        self.id
    }
    fn verify(&self) -> bool {
        (0..20).all(|i| self.b[i] == mix(self.id, i as u32) as u8) && (self as *const Self as usize) % 64 == 0
    }
}
drop_impl!(PA64);

/// What a re-entrant payload does in its destructor (installed per execution by the
/// interpreter: `len()` on some live handle of the channel under test).
pub static REENTRY: Mutex<Option<std::sync::Arc<dyn Fn() + Send + Sync>>> = Mutex::new(None);

/// A message whose destructor touches the channel it travels through (think of a message
/// that owns a handle of its own channel).  Only destructions performed by the library
/// re-enter, and not while the destroying thread runs with everybody else suspended.
pub struct PH {
    id: u32,
    b: [u8; 12],
}
impl Payload for PH {
    const NAME: &'static str = "PH";
    const DROPPABLE: bool = true;
    const REENTRANT: bool = true;
    fn make(id: u32) -> Self {
        let mut b = [0u8; 12];
        for (i, x) in b.iter_mut().enumerate() {
            *x = mix(id, i as u32) as u8;
        }
        PH { id, b }
    }
    fn id(&self) -> u32 {
        self.id
    }
    fn verify(&self) -> bool {
        (0..12).all(|i| self.b[i] == mix(self.id, i as u32) as u8)
    }
}
impl Drop for PH {
    fn drop(&mut self) {
        record_drop(Payload::id(self));
        let harness = HARNESS_DROP.with(|h| h.get());
        if !harness && rt::vid() != u32::MAX as usize && !rt::is_alone() {
            // never hold the host mutex across a scheduling point
            let f = REENTRY.lock().unwrap_or_else(|e| e.into_inner()).clone();
            if let Some(f) = f {
                f();
            }
        }
    }
}

/// Heap-owning payload (fuzz / Miri tiers): a double drop is a double free.
pub struct PB(Box<[u8; 24]>, u32);
impl Payload for PB {
    const NAME: &'static str = "PB";
    const DROPPABLE: bool = true;
    fn make(id: u32) -> Self {
        let mut b = [0u8; 24];
        for (i, x) in b.iter_mut().enumerate() {
            *x = mix(id, i as u32) as u8;
        }
        PB(Box::new(b), id)
    }
    fn id(&self) -> u32 {
        self.1
    }
    fn verify(&self) -> bool {
        (0..24).all(|i| self.0[i] == mix(self.1, i as u32) as u8)
    }
}
drop_impl!(PB);

macro_rules! raw_impl {
    ($t:ty, $name:expr) => {
        impl Payload for $t {
            const NAME: &'static str = $name;
            const DROPPABLE: bool = false;
            fn make(id: u32) -> Self {
                // arbitrary generated bit pattern with the identity in the low 6 bits
                let hi = mix(id, 7) as u128 | ((mix(id, 8) as u128) << 64);
                ((hi & !63u128) | (id as u128 & 63)) as $t
            }
            fn id(&self) -> u32 {
                (*self as u128 & 63) as u32
            }
            fn verify(&self) -> bool {
                *self == <$t as Payload>::make(Payload::id(self))
            }
        }
    };
}
raw_impl!(u8, "u8");
raw_impl!(u16, "u16");
raw_impl!(u32, "u32");
raw_impl!(u64, "u64");
raw_impl!(u128, "u128");
