//! C20: generated message TYPE expressions with a structural model of the auto-trait
//! rules; rustc's verdict on kanal's handles, futures and stream (evaluated in one
//! compiled program per batch by inherent-const-vs-trait-const resolution) is the subject,
//! the model is the oracle.  Plus generated thread::spawn programs that must / must not
//! compile, and a generic `fn all<T: Send>()` the compiler checks universally.

use common::driver::{self, CaseOut, Engine, ParentCfg};
use proptest::prelude::*;
use proptest::strategy::BoxedStrategy;
use serde_json::json;
use std::hash::{Hash, Hasher};
use std::path::{Path, PathBuf};
use std::process::Command;

#[derive(Clone, Debug, PartialEq, Eq, Hash)]
pub struct TCase {
    pub types: Vec<Vec<u8>>,
}

// (text, send, sync)
const LEAVES: &[(&str, bool, bool)] = &[
    ("u8", true, true),
    ("String", true, true),
    ("[u8; 32]", true, true),
    ("()", true, true),
    ("fn() -> u8", true, true),
    ("&'static str", true, true),
    ("std::sync::atomic::AtomicU32", true, true),
    ("std::cell::Cell<u8>", true, false),
    ("std::cell::RefCell<String>", true, false),
    ("std::rc::Rc<u8>", false, false),
    ("*const u8", false, false),
    ("std::sync::MutexGuard<'static, u8>", false, true),
    ("std::marker::PhantomData<std::rc::Rc<u8>>", false, false),
    ("std::rc::Weak<u8>", false, false),
    ("Box<dyn Fn() -> u8>", false, false),
    ("Box<dyn Fn() -> u8 + Send>", true, false),
    ("Box<dyn std::any::Any + Send + Sync>", true, true),
    ("std::sync::mpsc::Receiver<u8>", true, false),
];

#[derive(Clone, Copy)]
enum C {
    Option,
    Vec,
    Box,
    Pair,
    Arr,
    Arc,
    Mutex,
    RwLock,
    Ref,
    Cell,
    Phantom,
    Rc,
    MutPtr,
    KanalSender,
    KanalAsyncReceiver,
    MpscSender,
}
const CONS: &[C] = &[
    C::Option,
    C::Vec,
    C::Box,
    C::Pair,
    C::Arr,
    C::Arc,
    C::Arc,
    C::Mutex,
    C::Mutex,
    C::RwLock,
    C::Ref,
    C::Ref,
    C::Cell,
    C::Phantom,
    C::Rc,
    C::MutPtr,
    C::KanalSender,
    C::KanalAsyncReceiver,
    C::MpscSender,
];

pub struct Ty {
    pub text: String,
    pub send: bool,
    pub sync: bool,
    /// a non-Send / non-Sync component sits under Arc / Mutex / RwLock / & (the wrappers
    /// whose answer is not the plain conjunction)
    pub interesting: bool,
    pub has_bad_leaf: bool,
}

fn decode(b: &[u8], pos: &mut usize, depth: u32) -> Ty {
    let mut next = || {
        let x = if *pos < b.len() { b[*pos] } else { 0 };
        *pos += 1;
        x
    };
    let x = next() as usize;
    let nl = LEAVES.len();
    let total = nl + CONS.len();
    let choice = if depth >= 3 { (x * nl) >> 8 } else { (x * total) >> 8 };
    if choice < nl {
        let l = LEAVES[choice];
        return Ty {
            text: l.0.to_string(),
            send: l.1,
            sync: l.2,
            interesting: false,
            has_bad_leaf: !(l.1 && l.2),
        };
    }
    let c = CONS[choice - nl];
    let a = decode(b, pos, depth + 1);
    let bad = a.has_bad_leaf;
    let mk = |text: String, send: bool, sync: bool, interesting: bool, bad: bool| Ty {
        text,
        send,
        sync,
        interesting,
        has_bad_leaf: bad,
    };
    match c {
        C::Option => mk(format!("Option<{}>", a.text), a.send, a.sync, a.interesting, bad),
        C::Vec => mk(format!("Vec<{}>", a.text), a.send, a.sync, a.interesting, bad),
        C::Box => mk(format!("Box<{}>", a.text), a.send, a.sync, a.interesting, bad),
        C::Arr => mk(format!("[{}; 2]", a.text), a.send, a.sync, a.interesting, bad),
        C::Pair => {
            let b2 = decode(b, pos, depth + 1);
            mk(
                format!("({}, {})", a.text, b2.text),
                a.send && b2.send,
                a.sync && b2.sync,
                a.interesting || b2.interesting,
                bad || b2.has_bad_leaf,
            )
        }
        C::Arc => mk(
            format!("std::sync::Arc<{}>", a.text),
            a.send && a.sync,
            a.send && a.sync,
            a.interesting || bad,
            bad,
        ),
        C::Mutex => mk(format!("std::sync::Mutex<{}>", a.text), a.send, a.send, a.interesting || bad, bad),
        C::RwLock => mk(
            format!("std::sync::RwLock<{}>", a.text),
            a.send,
            a.send && a.sync,
            a.interesting || bad,
            bad,
        ),
        C::Ref => mk(format!("&'static {}", a.text), a.sync, a.sync, a.interesting || bad, bad),
        C::Cell => mk(format!("std::cell::Cell<{}>", a.text), a.send, false, a.interesting, true),
        C::Phantom => mk(format!("std::marker::PhantomData<{}>", a.text), a.send, a.sync, a.interesting, bad),
        C::Rc => mk(format!("std::rc::Rc<{}>", a.text), false, false, a.interesting, true),
        C::MutPtr => mk(format!("*mut {}", a.text), false, false, a.interesting, true),
        // channels of channels: kanal handles are Send + Sync exactly when the message is Send
        C::KanalSender => mk(format!("kanal::Sender<{}>", a.text), a.send, a.send, a.interesting || bad, bad),
        C::KanalAsyncReceiver => mk(
            format!("kanal::AsyncReceiver<{}>", a.text),
            a.send,
            a.send,
            a.interesting || bad,
            bad,
        ),
        C::MpscSender => mk(format!("std::sync::mpsc::Sender<{}>", a.text), a.send, a.send, a.interesting || bad, bad),
    }
}

pub fn decode_ty(b: &[u8]) -> Ty {
    let mut pos = 0;
    decode(b, &mut pos, 0)
}

const KINDS: [&str; 7] = [
    "kanal::Sender<M>",
    "kanal::AsyncSender<M>",
    "kanal::Receiver<M>",
    "kanal::AsyncReceiver<M>",
    "kanal::SendFuture<'static, M>",
    "kanal::ReceiveFuture<'static, M>",
    "kanal::ReceiveStream<'static, M>",
];

const PRELUDE: &str = r#"
#![allow(dead_code, unused)]
use std::marker::PhantomData;
struct IsSend<T: ?Sized>(PhantomData<T>);
trait NotSend { const V: bool = false; }
impl<T: ?Sized> NotSend for IsSend<T> {}
impl<T: ?Sized + Send> IsSend<T> { const V: bool = true; }
struct IsSync<T: ?Sized>(PhantomData<T>);
trait NotSync { const V: bool = false; }
impl<T: ?Sized> NotSync for IsSync<T> {}
impl<T: ?Sized + Sync> IsSync<T> { const V: bool = true; }
"#;

fn table_source(tys: &[Ty]) -> String {
    let mut s = String::from(PRELUDE);
    s.push_str("fn main() {\n");
    for (i, t) in tys.iter().enumerate() {
        s.push_str(&format!("    {{ type M = {};\n      print!(\"{} \");\n", t.text, i));
        for k in KINDS.iter() {
            s.push_str(&format!(
                "      print!(\"{{}}{{}} \", <IsSend<{k}>>::V as u8, <IsSync<{k}>>::V as u8);\n",
                k = k
            ));
        }
        s.push_str("      print!(\"{}{}\", <IsSend<M>>::V as u8, <IsSync<M>>::V as u8);\n");
        s.push_str("      println!(); }\n");
    }
    s.push_str("}\n");
    s
}

const GENERIC: &str = r#"
#![allow(dead_code, unused)]
fn req_send_sync<X: Send + Sync>() {}
fn req_send<X: Send>() {}
fn all<T: Send + 'static>() {
    req_send_sync::<kanal::Sender<T>>();
    req_send_sync::<kanal::AsyncSender<T>>();
    req_send_sync::<kanal::Receiver<T>>();
    req_send_sync::<kanal::AsyncReceiver<T>>();
    req_send::<kanal::SendFuture<'static, T>>();
    req_send::<kanal::ReceiveFuture<'static, T>>();
    req_send::<kanal::ReceiveStream<'static, T>>();
}
fn spawn_all<T: Send + 'static>(v: T) {
    let (s, r) = kanal::bounded_async::<T>(1);
    let (s2, r2) = (s.clone(), r.clone_sync());
    let h = std::thread::spawn(move || { let f = s2.send(v); drop(f); drop(r2); });
    let st = r.stream();
    fn is_send<X: Send>(_: &X) {}
    is_send(&st); is_send(&r.recv());
    h.join().unwrap();
}
fn main() { all::<u8>(); all::<String>(); spawn_all(vec![1u8]); }
"#;

fn spawn_source(t: &Ty, which: u8) -> String {
    let body = match which % 4 {
        0 => "let (s, _r) = kanal::unbounded::<M>(); std::thread::spawn(move || drop(s));",
        1 => "let (_s, r) = kanal::bounded_async::<M>(1); std::thread::spawn(move || drop(r));",
        2 => "let (s, _r) = kanal::bounded::<M>(0); let s: &'static kanal::Sender<M> = Box::leak(Box::new(s)); std::thread::spawn(move || { let _ = s.len(); });",
        _ => "let (_s, r) = kanal::unbounded_async::<M>(); let r: &'static kanal::AsyncReceiver<M> = Box::leak(Box::new(r)); let f = r.recv(); std::thread::spawn(move || drop(f));",
    };
    format!("#![allow(dead_code, unused)]\ntype M = {};\nfn main() {{ {} }}\n", t.text, body)
}

fn libdir() -> PathBuf {
    driver::out_base().join("target").join("typegen").join("kanal")
}

/// Build the (unhooked) crate from /repo's working tree once per check.
fn build_kanal() -> Result<(), String> {
    let repo = std::env::var("VERIF_REPO").unwrap_or_else(|_| "/repo".into());
    let out = Command::new("cargo")
        .args(["build", "--offline", "--lib", "--manifest-path"])
        .arg(format!("{}/Cargo.toml", repo))
        .arg("--target-dir")
        .arg(libdir())
        .env("CARGO_NET_OFFLINE", "true")
        .output()
        .map_err(|e| e.to_string())?;
    if !out.status.success() {
        return Err(String::from_utf8_lossy(&out.stderr).to_string());
    }
    Ok(())
}

fn rustc(src: &str, name: &str, run: bool) -> (bool, String, String) {
    let dir = driver::out_base().join("target").join("typegen").join(format!("w{}", std::process::id()));
    let _ = std::fs::create_dir_all(&dir);
    let f = dir.join(format!("{}.rs", name));
    std::fs::write(&f, src).expect("write source");
    let exe = dir.join(name);
    let deps = libdir().join("debug").join("deps");
    let rlib = libdir().join("debug").join("libkanal.rlib");
    let out = Command::new("rustc")
        .args(["--edition", "2021", "--crate-type", "bin", "-C", "debuginfo=0", "-C", "opt-level=0"])
        .arg("-L")
        .arg(format!("dependency={}", deps.display()))
        .arg("--extern")
        .arg(format!("kanal={}", rlib.display()))
        .arg("-o")
        .arg(&exe)
        .arg(&f)
        .output()
        .expect("run rustc");
    let stderr = String::from_utf8_lossy(&out.stderr).to_string();
    if !out.status.success() {
        return (false, String::new(), stderr);
    }
    if !run {
        return (true, String::new(), stderr);
    }
    let r = Command::new(&exe).output().expect("run generated program");
    (r.status.success(), String::from_utf8_lossy(&r.stdout).to_string(), stderr)
}

pub struct TypeEng;

fn run_case(case: &TCase) -> CaseOut {
    let mut co = CaseOut::default();
    let tys: Vec<Ty> = case.types.iter().map(|b| decode_ty(b)).collect();
    if tys.is_empty() {
        co.sample = json!({"types": []});
        return co;
    }
    let mut viol: Vec<(String, String)> = Vec::new();
    let (ok, stdout, stderr) = rustc(&table_source(&tys), "table", true);
    if !ok {
        // the table program only names types: a failure here is a generator problem
        co.inconclusive = true;
        co.sample = json!({"types": tys.iter().map(|t| t.text.clone()).collect::<Vec<_>>(), "compile_error": stderr.chars().take(2000).collect::<String>()});
        eprintln!("typegen: table program did not compile:\n{}", stderr.chars().take(1500).collect::<String>());
        return co;
    }
    let mut rows = 0;
    for line in stdout.lines() {
        let parts: Vec<&str> = line.split_whitespace().collect();
        if parts.len() != 9 {
            continue;
        }
        let i: usize = parts[0].parse().unwrap_or(usize::MAX);
        if i >= tys.len() {
            continue;
        }
        rows += 1;
        let t = &tys[i];
        let bits = |s: &str| (s.as_bytes()[0] == b'1', s.as_bytes()[1] == b'1');
        // the model itself is validated against rustc on the bare message type
        let (ms, my) = bits(parts[8]);
        if (ms, my) != (t.send, t.sync) {
            co.inconclusive = true;
            eprintln!("typegen: model disagrees with rustc on `{}`: model ({},{}), rustc ({},{})", t.text, t.send, t.sync, ms, my);
            continue;
        }
        for k in 0..7 {
            let (s, y) = bits(parts[1 + k]);
            if k < 4 {
                if (s, y) != (t.send, t.send) {
                    viol.push((
                        "handle_autotraits_mismatch".into(),
                        format!(
                            "M = {} (Send: {}): {} is Send={} Sync={}, expected both {}",
                            t.text,
                            t.send,
                            KINDS[k].replace('M', "_"),
                            s,
                            y,
                            t.send
                        ),
                    ));
                }
            } else if s != t.send || (!t.send && y) {
                viol.push((
                    "future_autotraits_mismatch".into(),
                    format!(
                        "M = {} (Send: {}): {} is Send={} Sync={}, expected Send={}{}",
                        t.text,
                        t.send,
                        KINDS[k],
                        s,
                        y,
                        t.send,
                        if t.send { "" } else { " and not Sync" }
                    ),
                ));
            }
        }
    }
    if rows != tys.len() {
        co.inconclusive = true;
    }
    // generated spawn programs: must not compile for non-Send M, must compile for Send M
    let mut neg = 0;
    let mut pos = 0;
    for (i, t) in tys.iter().enumerate() {
        let want = if !t.send && neg < 2 {
            neg += 1;
            true
        } else if t.send && pos < 1 {
            pos += 1;
            true
        } else {
            false
        };
        if !want {
            continue;
        }
        let which = case.types[i].iter().fold(0u8, |a, b| a.wrapping_add(*b));
        let (ok, _, stderr) = rustc(&spawn_source(t, which), "spawn", false);
        if t.send && !ok {
            viol.push((
                "send_program_rejected".into(),
                format!("M = {} is Send but moving a handle/future to another thread does not compile: {}", t.text, stderr.lines().next().unwrap_or("")),
            ));
        }
        if !t.send {
            if ok {
                viol.push((
                    "nonsend_program_compiled".into(),
                    format!("M = {} is not Send, yet a program moving/sharing a handle or future across threads compiles (variant {})", t.text, which % 4),
                ));
            } else if !stderr.contains("E0277") {
                co.inconclusive = true;
                eprintln!("typegen: spawn program failed for another reason: {}", stderr.chars().take(600).collect::<String>());
            }
        }
    }
    for (p, d) in viol.iter().take(6) {
        co.viols.push((p.clone(), format!("C20/{}", p), d.clone()));
    }
    let interesting = tys.iter().filter(|t| t.interesting).count() as u32;
    co.classes = vec![
        ("types".into(), tys.len() as u32),
        ("types_not_send".into(), tys.iter().filter(|t| !t.send).count() as u32),
        ("types_send_not_sync".into(), tys.iter().filter(|t| t.send && !t.sync).count() as u32),
        ("types_with_answer_changing_wrapper".into(), interesting),
        ("must_not_compile_programs".into(), neg),
        ("must_compile_programs".into(), pos),
    ];
    if interesting > 0 && !co.inconclusive {
        let mut h = std::collections::hash_map::DefaultHasher::new();
        tys.iter().map(|t| t.text.clone()).collect::<Vec<_>>().hash(&mut h);
        co.nontrivial = Some(h.finish());
    }
    co.sample = json!({
        "types": tys.iter().take(12).map(|t| json!({"M": t.text, "send": t.send, "sync": t.sync})).collect::<Vec<_>>(),
        "batch_size": tys.len(),
    });
    co
}

fn to_hex(c: &TCase) -> String {
    c.types
        .iter()
        .map(|t| t.iter().map(|b| format!("{:02x}", b)).collect::<String>())
        .collect::<Vec<_>>()
        .join(".")
}
fn from_hex(s: &str) -> TCase {
    TCase {
        types: s
            .trim()
            .split('.')
            .filter(|x| !x.is_empty())
            .map(|t| (0..t.len() / 2).map(|i| u8::from_str_radix(&t[2 * i..2 * i + 2], 16).unwrap_or(0)).collect())
            .collect(),
    }
}

impl Engine for TypeEng {
    type Case = TCase;
    fn strategy(&self, _prop: &str, _tier: &str) -> BoxedStrategy<TCase> {
        let ty = prop::collection::vec(any::<u8>(), 1..=7);
        prop::collection::vec(ty, 16..=48).prop_map(|types| TCase { types }).boxed()
    }
    fn run(&self, _prop: &str, case: &TCase) -> CaseOut {
        run_case(case)
    }
    fn encode(&self, case: &TCase) -> String {
        to_hex(case)
    }
    fn decode(&self, s: &str) -> TCase {
        from_hex(s)
    }
    fn regressions(&self, _prop: &str) -> Vec<(String, Option<String>)> {
        // every leaf and every constructor over the two extreme leaves, always
        let mut types: Vec<Vec<u8>> = Vec::new();
        let nl = LEAVES.len();
        let total = nl + CONS.len();
        let byte_for = |choice: usize, n: usize| -> u8 { (0..=255u8).find(|b| ((*b as usize) * n) >> 8 == choice).unwrap() };
        for l in 0..nl {
            types.push(vec![byte_for(l, total)]);
        }
        for c in 0..CONS.len() {
            for leaf in [0usize, 9, 7, 11] {
                types.push(vec![byte_for(nl + c, total), byte_for(leaf, total), byte_for(leaf, total)]);
            }
        }
        types.chunks(48).map(|c| (to_hex(&TCase { types: c.to_vec() }), None)).collect()
    }
}

const RULE: &str = "each case is a batch of 16-48 message type expressions generated from a grammar (18 leaves incl. Rc, Cell, raw pointers, MutexGuard, trait objects; 16 constructors incl. Arc, Mutex, RwLock, &'static, tuples, nested kanal handles) and compiled into one program that prints rustc's Send/Sync verdict for the four handles, both futures and the stream at each type; compared with a structural model of the auto-trait rules (itself cross-checked against rustc on the bare type). Per batch up to 2 generated thread::spawn programs over a non-Send type must fail with E0277 and 1 over a Send type must compile; a generic fn all<T: Send>() is compiled once per check (universal positive direction). A fixed regression batch covers every leaf and every constructor. evaluations = batches; non-trivial = the batch contains a type where a non-Send/non-Sync component sits under Arc/Mutex/RwLock/&/a channel handle; distinct = hash of the type texts";

fn main() {
    let args: Vec<String> = std::env::args().collect();
    let cmd = args.get(1).map(|s| s.as_str()).unwrap_or("");
    let eng = TypeEng;
    match cmd {
        "check" => {
            let prop = args[2].clone();
            let tier = args.get(3).cloned().unwrap_or_else(|| "quick".into());
            let seed = driver::seed_from_env();
            if let Err(e) = build_kanal() {
                println!("cannot build the crate: {}", e.chars().take(2000).collect::<String>());
                std::process::exit(2);
            }
            // universal positive direction
            let (ok, _, stderr) = rustc(GENERIC, "generic", true);
            if !ok {
                let rdir = driver::out_base().join("replays");
                let _ = std::fs::create_dir_all(&rdir);
                let rpath = rdir.join("C20-generic-positive.json");
                let rv = json!({"property": prop, "engine": "typegen", "case": "", "predicate": "generic_positive_failed",
                    "violations": [{"predicate": "generic_positive_failed", "signature": "C20/generic_positive_failed", "detail": stderr.chars().take(3000).collect::<String>()}]});
                std::fs::write(&rpath, serde_json::to_vec_pretty(&rv).unwrap()).unwrap();
                println!("VIOLATION property={} replay={}", prop, rpath.display());
                println!("  generic_positive_failed: fn all<T: Send>() requiring Send+Sync handles and Send futures does not compile / run");
                std::process::exit(1);
            }
            std::env::set_var("VERIF_MAX_SHRINK", "40");
            let workers: u64 = std::env::var("VERIF_WORKERS").ok().and_then(|s| s.parse().ok()).unwrap_or(16);
            let base: u32 = if tier == "thorough" { 40 } else { 2 };
            let code = driver::run_parent(
                &eng,
                ParentCfg {
                    prop: &prop,
                    tier: &tier,
                    seed,
                    workers,
                    cases_per_worker: std::env::var("VERIF_CASES").ok().and_then(|s| s.parse().ok()).unwrap_or(base),
                    level: "exploration",
                    rule: RULE,
                    assumptions: vec![
                        "rustc's trait resolution is the subject; the structural auto-trait model is validated against rustc on every bare generated type (a disagreement is inconclusive, not a violation)".into(),
                        "negative direction on generated representative types only, as the property states".into(),
                    ],
                    exe_args: vec![],
                    engine_name: "typegen",
                },
            );
            std::process::exit(code);
        }
        "worker" => {
            let out = PathBuf::from(&args[7]);
            driver::run_worker(&eng, &args[2], &args[3], args[4].parse().unwrap(), args[5].parse().unwrap(), args[6].parse().unwrap(), &out);
            let _ = std::fs::remove_dir_all(driver::out_base().join("target").join("typegen").join(format!("w{}", std::process::id())));
        }
        "replay" => {
            if let Err(e) = build_kanal() {
                println!("cannot build the crate: {}", e);
                std::process::exit(2);
            }
            let p = Path::new(&args[3]);
            let code = driver::run_replay(&eng, &args[2], p);
            std::process::exit(code);
        }
        _ => {
            eprintln!("usage: typegen check <prop> [tier] | worker .. | replay <prop> <file>");
            std::process::exit(2);
        }
    }
}
