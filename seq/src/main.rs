fn main(){}
