use common::driver::{self, ParentCfg};
use seq::*;
use std::path::PathBuf;
use std::time::Duration;

fn main() {
    std::panic::set_hook(Box::new(|_| {}));
    let args: Vec<String> = std::env::args().collect();
    let cmd = args.get(1).map(|s| s.as_str()).unwrap_or("");
    let eng = SeqEng;
    match cmd {
        "check" => {
            let prop = args[2].clone();
            let tier = args.get(3).cloned().unwrap_or_else(|| "quick".into());
            let seed = driver::seed_from_env();
            let workers: u64 = std::env::var("VERIF_WORKERS").ok().and_then(|s| s.parse().ok()).unwrap_or(16);
            let base: u32 = if tier == "thorough" { 1_000_000 } else { 40_000 };
            let code = driver::run_parent(
                &eng,
                ParentCfg {
                    prop: &prop,
                    tier: &tier,
                    seed,
                    workers,
                    cases_per_worker: std::env::var("VERIF_CASES").ok().and_then(|s| s.parse().ok()).unwrap_or(base),
                    level: "exploration",
                    rule: rule_text(&prop),
                    assumptions: vec![
                        "the reference model (common/src/model.rs) is the specification: a queue plus one waiting list, read from the code and DESIGN.md appendix A".into(),
                        "one OS thread, unhooked crate; blocking calls are issued only when the model says they complete at once; recv_timeout(0) on an empty send-disconnected channel may return Timeout or SendClosed".into(),
                    ],
                    exe_args: vec![],
                    engine_name: if cfg!(feature = "stdmutex") { "seq[std-mutex]" } else { "seq" },
                },
            );
            let mut code = code;
            if code == 0 && std::env::var("SEQ_NO_EXHAUSTIVE").is_err() {
                code = exhaustive_phase(&prop, &tier, seed);
            }
            std::process::exit(code);
        }
        "worker" => {
            let prop = &args[2];
            let tier = &args[3];
            let seed: u64 = args[4].parse().unwrap();
            let worker: u64 = args[5].parse().unwrap();
            let cases: u32 = args[6].parse().unwrap();
            let out = PathBuf::from(&args[7]);
            driver::run_worker(&eng, prop, tier, seed, worker, cases, &out);
        }
        "replay" => {
            let prop = &args[2];
            let code = driver::run_replay(&eng, prop, &PathBuf::from(&args[3]));
            std::process::exit(code);
        }
        "mirirun" => {
            // many generated histories in ONE process (meant to run under Miri: UB / leak oracle)
            let prop = &args[2];
            let n: u64 = args[3].parse().unwrap();
            let seed: u64 = args[4].parse().unwrap();
            std::env::set_var("VERIF_CASE_TIER", "quick");
            let mut x = seed.wrapping_mul(0x9E3779B97F4A7C15) | 1;
            let mut rnd = move || {
                x ^= x << 13;
                x ^= x >> 7;
                x ^= x << 17;
                x
            };
            let mut nontrivial = 0;
            for i in 0..n {
                let len = 4 + (rnd() % 36) as usize;
                let m = if rnd() & 1 == 0 { 0u32 } else { rnd() as u32 };
                let mb = m.to_le_bytes();
                let cfg = [rnd() as u8, rnd() as u8, rnd() as u8, mb[0], mb[1], mb[2], mb[3]];
                let ops: Vec<[u8; 3]> = (0..len).map(|_| [rnd() as u8, rnd() as u8, rnd() as u8]).collect();
                let case = SCase { cfg, ops };
                println!("CASE {} {}", i, case.to_hex());
                let o = run_case(prop, &case, &caps_for("quick"));
                if o.nontrivial.is_some() {
                    nontrivial += 1;
                }
                if !o.viols.is_empty() {
                    for v in o.viols.iter() {
                        println!("VIOL {} [{}]: {}", v.0, v.1, v.2);
                    }
                    println!("ORACLE-VIOLATION case={}", case.to_hex());
                    std::process::exit(1);
                }
            }
            println!("MIRIRUN-OK cases={} nontrivial={}", n, nontrivial);
        }
        "hex" => {
            let prop = &args[2];
            let case = SCase::from_hex(&args[3]);
            let o = run_case(prop, &case, &caps_for("quick"));
            println!("{}", serde_json::to_string_pretty(&o.sample).unwrap());
            for v in o.viols.iter() {
                println!("VIOL {} [{}]: {}", v.0, v.1, v.2);
            }
        }
        _ => {
            eprintln!("usage: seq check <prop> [tier] | worker .. | replay <prop> <file> | hex <prop> <hex>");
            std::process::exit(2);
        }
    }
}
