use common::driver::{self, ParentCfg};
use seq::*;
use std::path::PathBuf;
use std::time::Duration;

fn main() {
    std::panic::set_hook(Box::new(|_| {}));
    let args: Vec<String> = std::env::args().collect();
    let cmd = args.get(1).map(|s| s.as_str()).unwrap_or("");
    let eng = SeqEng;
    match cmd {
        "check" => {
            let prop = args[2].clone();
            let tier = args.get(3).cloned().unwrap_or_else(|| "quick".into());
            let seed = driver::seed_from_env();
            let workers: u64 = std::env::var("VERIF_WORKERS").ok().and_then(|s| s.parse().ok()).unwrap_or(16);
            let base: u32 = if tier == "thorough" { 1_000_000 } else { 40_000 };
            let code = driver::run_parent(
                &eng,
                ParentCfg {
                    prop: &prop,
                    tier: &tier,
                    seed,
                    workers,
                    cases_per_worker: std::env::var("VERIF_CASES").ok().and_then(|s| s.parse().ok()).unwrap_or(base),
                    level: "exploration",
                    rule: rule_text(&prop),
                    assumptions: vec![
                        "the reference model (common/src/model.rs) is the specification: a queue plus one waiting list, read from the code and DESIGN.md appendix A".into(),
                        "one OS thread, unhooked crate; blocking calls are issued only when the model says they complete at once; recv_timeout(0) on an empty send-disconnected channel may return Timeout or SendClosed".into(),
                    ],
                    exe_args: vec![],
                    engine_name: "seq",
                },
            );
            let mut code = code;
            if code == 0 && std::env::var("SEQ_NO_EXHAUSTIVE").is_err() {
                code = exhaustive_phase(&prop, &tier, seed);
            }
            std::process::exit(code);
        }
        "worker" => {
            let prop = &args[2];
            let tier = &args[3];
            let seed: u64 = args[4].parse().unwrap();
            let worker: u64 = args[5].parse().unwrap();
            let cases: u32 = args[6].parse().unwrap();
            let out = PathBuf::from(&args[7]);
            // watchdog: a single-thread call that never returns is a hang, reported as exit 3
            std::thread::spawn(|| loop {
                std::thread::sleep(Duration::from_secs(600));
            });
            driver::run_worker(&eng, prop, tier, seed, worker, cases, &out);
        }
        "replay" => {
            let prop = &args[2];
            let code = driver::run_replay(&eng, prop, &PathBuf::from(&args[3]));
            std::process::exit(code);
        }
        "hex" => {
            let prop = &args[2];
            let case = SCase::from_hex(&args[3]);
            let o = run_case(prop, &case, &caps_for("quick"));
            println!("{}", serde_json::to_string_pretty(&o.sample).unwrap());
            for v in o.viols.iter() {
                println!("VIOL {} [{}]: {}", v.0, v.1, v.2);
            }
        }
        _ => {
            eprintln!("usage: seq check <prop> [tier] | worker .. | replay <prop> <file> | hex <prop> <hex>");
            std::process::exit(2);
        }
    }
}
