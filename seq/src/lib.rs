//! Single-thread model-based engine on the UNHOOKED crate: every public API call of a
//! generated (or exhaustively enumerated) history is executed against kanal and against
//! the reference model in lock-step (C18; the single-thread parts of C16 and C12).

use common::driver::{self, CaseOut, Engine, ParentCfg};
use common::model::{self as m, Chan, Comp, RecvOut, SendOut};
use futures_core::Stream;
use kanal::*;
use proptest::prelude::*;
use proptest::strategy::BoxedStrategy;
use serde_json::json;
use std::cell::RefCell;
use std::collections::{BTreeMap, BTreeSet};
use std::future::Future;
use std::hash::{Hash, Hasher};
use std::panic::{catch_unwind, AssertUnwindSafe};
use std::path::PathBuf;
use std::pin::Pin;
use std::sync::atomic::{AtomicU32, Ordering};
use std::sync::Arc;
use std::task::{Context, Poll, Wake, Waker};
use std::time::Duration;

// ---------------------------------------------------------------------------
// payload with a thread-local ledger
// ---------------------------------------------------------------------------

#[derive(Default)]
struct Led {
    dropped: BTreeMap<u32, u32>, // id -> times destroyed by the library
    harness: bool,
    bad: Vec<String>,
}
thread_local! {
    static LED: RefCell<Led> = RefCell::new(Led::default());
}

struct P<const N: usize> {
    id: u32,
    fill: [u8; N],
}
impl<const N: usize> P<N> {
    fn new(id: u32) -> Self {
        let mut fill = [0u8; N];
        for (i, b) in fill.iter_mut().enumerate() {
            *b = (id as u8).wrapping_mul(31).wrapping_add(i as u8);
        }
        P { id, fill }
    }
    fn ok(&self) -> bool {
        self.fill
            .iter()
            .enumerate()
            .all(|(i, b)| *b == (self.id as u8).wrapping_mul(31).wrapping_add(i as u8))
    }
}
impl<const N: usize> Drop for P<N> {
    fn drop(&mut self) {
        LED.with(|l| {
            let mut l = l.borrow_mut();
            if !l.harness {
                *l.dropped.entry(self.id).or_insert(0) += 1;
            }
        })
    }
}
fn hdrop<T>(v: T) {
    LED.with(|l| l.borrow_mut().harness = true);
    drop(v);
    LED.with(|l| l.borrow_mut().harness = false);
}

struct CountWaker(AtomicU32);
impl Wake for CountWaker {
    fn wake(self: Arc<Self>) {
        self.0.fetch_add(1, Ordering::SeqCst);
    }
    fn wake_by_ref(self: &Arc<Self>) {
        self.0.fetch_add(1, Ordering::SeqCst);
    }
}

// ---------------------------------------------------------------------------
// case
// ---------------------------------------------------------------------------

#[derive(Clone, Debug, PartialEq, Eq, Hash)]
pub struct SCase {
    /// capacity class, constructor flavour, payload size class, and a 4-byte "swarm" mask:
    /// which call kinds this history may use (0 = all)
    pub cfg: [u8; 7],
    pub ops: Vec<[u8; 3]>,
}
impl SCase {
    pub fn to_hex(&self) -> String {
        let mut v = self.cfg.to_vec();
        for o in &self.ops {
            v.extend_from_slice(o);
        }
        v.iter().map(|b| format!("{:02x}", b)).collect()
    }
    pub fn from_hex(s: &str) -> SCase {
        let b: Vec<u8> = (0..s.len() / 2)
            .map(|i| u8::from_str_radix(&s[2 * i..2 * i + 2], 16).unwrap_or(0))
            .collect();
        let mut cfg = [0u8; 7];
        for i in 0..7 {
            cfg[i] = *b.get(i).unwrap_or(&0);
        }
        let ops = b
            .get(7..)
            .unwrap_or(&[])
            .chunks(3)
            .map(|c| [c[0], *c.get(1).unwrap_or(&0), *c.get(2).unwrap_or(&0)])
            .collect();
        SCase { cfg, ops }
    }
}

#[derive(Clone, Copy, Debug, PartialEq, Eq, Hash)]
#[repr(u8)]
enum A {
    Send,
    SendTimeout0,
    SendOptTimeout0,
    TrySend,
    TrySendOpt,
    TrySendRt,
    TrySendOptRt,
    Recv,
    RecvTimeout0,
    TryRecv,
    TryRecvRt,
    Drain,
    IterNext,
    SendFutNew,
    RecvFutNew,
    PollFut,
    DropFut,
    StreamNew,
    StreamPoll,
    StreamDrop,
    CloneSame,
    CloneCross,
    Convert,
    DropHandle,
    Close,
    Observe,
    TrySendOptNone,
    /// clone one handle 70 times, observe, drop 69 of the clones (count thresholds)
    CloneBurst,
    /// many try_sends in a row (long queues: growth / wrap-around / batch limits), then observe
    SendBurst,
    /// `clone_from` a handle of this channel into a handle of a fresh second channel: the old
    /// channel must lose that handle, this one gains it
    CloneFrom,
    /// 36 futures created and polled once in a row (deep waiting lists: batch limits, ring
    /// wrap-around of the waiting list), to be completed / dropped by the rest of the history
    FutBurst,
}
// Weights are twice what they were before `FutBurst` took half of `CloneFrom`'s share, so the
// byte -> letter mapping of every other letter (and of the saved regression cases) is unchanged.
const ALPHA: [(A, u32); 31] = [
    (A::Send, 10),
    (A::SendTimeout0, 6),
    (A::SendOptTimeout0, 6),
    (A::TrySend, 8),
    (A::TrySendOpt, 6),
    (A::TrySendRt, 4),
    (A::TrySendOptRt, 4),
    (A::Recv, 10),
    (A::RecvTimeout0, 6),
    (A::TryRecv, 8),
    (A::TryRecvRt, 4),
    (A::Drain, 6),
    (A::IterNext, 4),
    (A::SendFutNew, 10),
    (A::RecvFutNew, 10),
    (A::PollFut, 20),
    (A::DropFut, 6),
    (A::StreamNew, 4),
    (A::StreamPoll, 12),
    (A::StreamDrop, 2),
    (A::CloneSame, 6),
    (A::CloneCross, 6),
    (A::Convert, 6),
    (A::DropHandle, 8),
    (A::Close, 2),
    (A::Observe, 10),
    (A::TrySendOptNone, 2),
    (A::CloneBurst, 2),
    (A::SendBurst, 2),
    (A::CloneFrom, 1),
    (A::FutBurst, 1),
];
fn pick_a(b: u8) -> A {
    pick_a_masked(b, 0)
}

/// Under Miri (about 1000x slower) and under the coverage-guided fuzzer (which would spend all
/// its time in them) the big bursts are left out.
fn small_bursts() -> bool {
    static S: std::sync::OnceLock<bool> = std::sync::OnceLock::new();
    *S.get_or_init(|| std::env::var("VERIF_SMALL_BURSTS").is_ok() || cfg!(miri) || cfg!(fuzzing))
}

/// Swarm testing: a history may be restricted to a generated subset of the call kinds
/// (bit i of `mask` enables ALPHA[i]; fewer than 3 enabled kinds, or 0, means all).
fn pick_a_masked(b: u8, mask: u32) -> A {
    let enabled = |i: usize| mask == 0 || mask.count_ones() < 3 || (mask >> i) & 1 == 1;
    let total: u32 = ALPHA.iter().enumerate().filter(|(i, _)| enabled(*i)).map(|(_, x)| x.1).sum();
    let x = (b as u32 * total) >> 8;
    let mut acc = 0;
    for (i, (a, w)) in ALPHA.iter().enumerate() {
        if !enabled(i) {
            continue;
        }
        acc += w;
        if x < acc {
            return *a;
        }
    }
    A::Observe
}

enum H<T> {
    S(Box<Sender<T>>),
    AS(Box<AsyncSender<T>>),
    R(Box<Receiver<T>>),
    AR(Box<AsyncReceiver<T>>),
}
impl<T> H<T> {
    fn is_send(&self) -> bool {
        matches!(self, H::S(_) | H::AS(_))
    }
    fn ss(&self) -> &Sender<T> {
        match self {
            H::S(s) => s,
            H::AS(s) => s.as_sync(),
            _ => unreachable!(),
        }
    }
    fn sa(&self) -> &AsyncSender<T> {
        match self {
            H::S(s) => s.as_async(),
            H::AS(s) => s,
            _ => unreachable!(),
        }
    }
    fn rs(&self) -> &Receiver<T> {
        match self {
            H::R(s) => s,
            H::AR(s) => s.as_sync(),
            _ => unreachable!(),
        }
    }
    fn ra(&self) -> &AsyncReceiver<T> {
        match self {
            H::R(s) => s.as_async(),
            H::AR(s) => s,
            _ => unreachable!(),
        }
    }
}

#[derive(Clone, Copy, PartialEq, Eq, Debug)]
enum FSt {
    Zero,
    Waiting,
    Done,
}
enum FObj<T: 'static> {
    Send(Pin<Box<SendFuture<'static, T>>>, u32),
    Recv(Pin<Box<ReceiveFuture<'static, T>>>),
}
struct Fut<T: 'static> {
    obj: FObj<T>,
    handle: usize,
    owner: u32,
    st: FSt,
    waker: usize,
}
struct Strm<T: 'static> {
    obj: Pin<Box<ReceiveStream<'static, T>>>,
    handle: usize,
    owner: u32,
    st: FSt,
    waker: usize,
    terminated: bool,
}

struct World<const N: usize> {
    hs: Vec<Option<H<P<N>>>>,
    futs: Vec<Option<Fut<P<N>>>>,
    strm: Option<Strm<P<N>>>,
    m: Chan,
    next_id: u32,
    next_owner: u32,
    wakers: Vec<(Arc<CountWaker>, Waker)>,
    exp_wakes: Vec<u32>,
    exp_dropped: BTreeSet<u32>,
    created: BTreeSet<u32>,
    received: BTreeSet<u32>,
    owner_waker: BTreeMap<u32, usize>,
    trace: Vec<String>,
    flags: BTreeSet<&'static str>,
    viol: Vec<(String, String)>,
    live_handles: usize,
    in_queue_at_end: bool,
    mask: u32,
}

fn err_s(e: SendError) -> m::Err {
    match e {
        SendError::Closed => m::Err::Closed,
        SendError::ReceiveClosed => m::Err::ReceiveClosed,
    }
}
fn err_st(e: SendErrorTimeout) -> m::Err {
    match e {
        SendErrorTimeout::Closed => m::Err::Closed,
        SendErrorTimeout::ReceiveClosed => m::Err::ReceiveClosed,
        SendErrorTimeout::Timeout => m::Err::Timeout,
    }
}
fn err_r(e: ReceiveError) -> m::Err {
    match e {
        ReceiveError::Closed => m::Err::Closed,
        ReceiveError::SendClosed => m::Err::SendClosed,
    }
}
fn err_rt(e: ReceiveErrorTimeout) -> m::Err {
    match e {
        ReceiveErrorTimeout::Closed => m::Err::Closed,
        ReceiveErrorTimeout::SendClosed => m::Err::SendClosed,
        ReceiveErrorTimeout::Timeout => m::Err::Timeout,
    }
}

impl<const N: usize> World<N> {
    fn pick(&self, want_send: Option<bool>, b: u8) -> Option<usize> {
        let live: Vec<usize> = (0..self.hs.len())
            .filter(|&i| match (&self.hs[i], want_send) {
                (Some(h), Some(s)) => h.is_send() == s,
                (Some(_), None) => true,
                _ => false,
            })
            .collect();
        if live.is_empty() {
            None
        } else {
            Some(live[(b as usize * live.len()) >> 8])
        }
    }
    fn fail(&mut self, pred: &str, d: String) {
        if self.viol.len() < 4 {
            self.viol.push((pred.to_string(), d));
        }
    }
    fn newval(&mut self) -> (u32, P<N>) {
        let id = self.next_id;
        self.next_id += 1;
        self.created.insert(id);
        (id, P::new(id))
    }
    /// account for owners the model just completed (async ones get one wake)
    fn apply_woken(&mut self) {
        let w = std::mem::take(&mut self.m.woken);
        for o in w {
            if let Some(k) = self.owner_waker.get(&o) {
                self.exp_wakes[*k] += 1;
            }
        }
    }
    fn got(&mut self, what: &str, v: P<N>, expect: Option<u32>) {
        if !v.ok() {
            self.fail("corrupt_value", format!("{} returned a corrupted value claiming id {}", what, v.id));
        }
        if Some(v.id) != expect {
            self.fail("wrong_value", format!("{} returned value {} but the model expected {:?}", what, v.id, expect));
        }
        if !self.received.insert(v.id) {
            self.fail("dup_recv", format!("{} returned value {} a second time", what, v.id));
        }
        hdrop(v);
    }
    fn check_result<T: std::fmt::Debug + PartialEq>(&mut self, what: &str, got: T, exp: T) {
        if got != exp {
            self.fail("result_mismatch", format!("{}: kanal returned {:?}, the reference model {:?}", what, got, exp));
        }
    }

    // ---- future helpers -----------------------------------------------------------
    fn drop_fut(&mut self, slot: usize) {
        let Some(f) = self.futs[slot].take() else { return };
        let Fut { obj, owner, st, .. } = f;
        match (&obj, st) {
            (FObj::Send(_, id), FSt::Zero) => {
                self.exp_dropped.insert(*id);
            }
            (FObj::Send(_, id), FSt::Waiting) => {
                if self.m.cancel(owner).is_some() {
                    self.exp_dropped.insert(*id);
                    self.flags.insert("cancel_registered_send_future");
                } else {
                    match self.m.collect(owner) {
                        Some(Comp::Sent) => {
                            self.flags.insert("drop_completed_unpolled_future");
                        }
                        _ => {
                            self.exp_dropped.insert(*id);
                        }
                    }
                }
            }
            (FObj::Recv(_), FSt::Waiting) => {
                if self.m.cancel(owner).is_some() {
                    self.flags.insert("cancel_registered_recv_future");
                } else if let Some(Comp::Got(v)) = self.m.collect(owner) {
                    self.exp_dropped.insert(v);
                    self.flags.insert("drop_completed_unpolled_future");
                }
            }
            _ => {}
        }
        self.owner_waker.remove(&owner);
        drop(obj);
    }
    fn drop_stream(&mut self) {
        let Some(s) = self.strm.take() else { return };
        if s.st == FSt::Waiting && !s.terminated {
            if self.m.cancel(s.owner).is_some() {
                self.flags.insert("cancel_registered_stream");
            } else if let Some(Comp::Got(v)) = self.m.collect(s.owner) {
                self.exp_dropped.insert(v);
            }
        }
        self.owner_waker.remove(&s.owner);
        drop(s.obj);
    }
    fn drop_borrowers(&mut self, handle: usize) {
        for i in 0..self.futs.len() {
            if self.futs[i].as_ref().map(|f| f.handle == handle).unwrap_or(false) {
                self.drop_fut(i);
            }
        }
        if self.strm.as_ref().map(|s| s.handle == handle).unwrap_or(false) {
            self.drop_stream();
        }
    }

    fn waker(&self, k: usize) -> Waker {
        self.wakers[k].1.clone()
    }

    /// model of one poll of a receive-type state machine; returns expected Poll
    fn model_recv_poll(&mut self, owner: u32, st: &mut FSt, k: usize, is_stream: bool) -> Option<Poll<Result<u32, m::Err>>> {
        loop {
            match *st {
                FSt::Zero => {
                    return Some(match self.m.recv() {
                        RecvOut::Val(v) => {
                            self.apply_woken();
                            *st = FSt::Done;
                            Poll::Ready(Ok(v))
                        }
                        RecvOut::Err(e) => {
                            *st = FSt::Done;
                            Poll::Ready(Err(e))
                        }
                        RecvOut::Empty => {
                            self.m.register_recv(owner);
                            self.owner_waker.insert(owner, k);
                            *st = FSt::Waiting;
                            self.flags.insert("registered_future");
                            Poll::Pending
                        }
                    });
                }
                FSt::Waiting => {
                    return Some(match self.m.collect(owner) {
                        Some(Comp::Got(v)) => {
                            *st = FSt::Done;
                            self.owner_waker.remove(&owner);
                            Poll::Ready(Ok(v))
                        }
                        Some(_) => {
                            *st = FSt::Done;
                            self.owner_waker.remove(&owner);
                            Poll::Ready(Err(m::Err::Closed))
                        }
                        None => {
                            if self.owner_waker.get(&owner) != Some(&k) {
                                self.flags.insert("waker_change");
                            } else {
                                self.flags.insert("spurious_poll");
                            }
                            self.owner_waker.insert(owner, k);
                            Poll::Pending
                        }
                    });
                }
                FSt::Done => {
                    if is_stream {
                        *st = FSt::Zero;
                        self.flags.insert("stream_second_wait");
                        continue;
                    }
                    return None; // documented panic
                }
            }
        }
    }

    fn step(&mut self, raw: [u8; 3]) {
        let a = pick_a_masked(raw[0], self.mask);
        self.step_a(a, raw[1], raw[2]);
    }

    fn step_a(&mut self, a: A, b1: u8, b2: u8) {
        match a {
            A::Send | A::SendTimeout0 | A::SendOptTimeout0 | A::TrySend | A::TrySendOpt | A::TrySendRt | A::TrySendOptRt => {
                let Some(hi) = self.pick(Some(true), b1) else { return };
                let mut mm = self.m.clone();
                let probe = mm.send(0);
                let mut a = a;
                if a == A::Send && probe == SendOut::Full {
                    a = A::TrySend; // a blocking send would wait for ever on one thread
                }
                let (id, v) = self.newval();
                let exp = self.m.send(id);
                self.apply_woken();
                let name = format!("{:?}(v{})", a, id);
                self.trace.push(name.clone());
                let h = self.hs[hi].as_ref().unwrap();
                // expected: Ok(()) / Ok(true), Ok(false), Err
                #[derive(Debug, PartialEq)]
                enum R {
                    Ok,
                    Refused,
                    Err(m::Err),
                }
                let timed = matches!(a, A::SendTimeout0 | A::SendOptTimeout0);
                let expected = match exp {
                    SendOut::Ok => R::Ok,
                    SendOut::Err(e) => R::Err(e),
                    SendOut::Full => {
                        self.flags.insert("send_on_full");
                        if timed {
                            R::Err(m::Err::Timeout)
                        } else {
                            R::Refused
                        }
                    }
                };
                let mut opt_left: Option<bool> = None;
                let got = match a {
                    A::Send => match h.ss().send(v) {
                        Ok(()) => R::Ok,
                        Err(e) => R::Err(err_s(e)),
                    },
                    A::SendTimeout0 => match h.ss().send_timeout(v, Duration::ZERO) {
                        Ok(()) => R::Ok,
                        Err(e) => R::Err(err_st(e)),
                    },
                    A::SendOptTimeout0 => {
                        let mut o = Some(v);
                        let r = h.ss().send_option_timeout(&mut o, Duration::ZERO);
                        opt_left = Some(o.is_some());
                        if let Some(x) = o {
                            hdrop(x)
                        }
                        match r {
                            Ok(()) => R::Ok,
                            Err(e) => R::Err(err_st(e)),
                        }
                    }
                    A::TrySend | A::TrySendRt => {
                        let r = match (a, h) {
                            (A::TrySend, H::S(s)) => s.try_send(v),
                            (A::TrySend, H::AS(s)) => s.try_send(v),
                            (_, H::S(s)) => s.try_send_realtime(v),
                            (_, H::AS(s)) => s.try_send_realtime(v),
                            _ => unreachable!(),
                        };
                        match r {
                            Ok(true) => R::Ok,
                            Ok(false) => R::Refused,
                            Err(e) => R::Err(err_s(e)),
                        }
                    }
                    _ => {
                        let mut o = Some(v);
                        let r = match (a, h) {
                            (A::TrySendOpt, H::S(s)) => s.try_send_option(&mut o),
                            (A::TrySendOpt, H::AS(s)) => s.try_send_option(&mut o),
                            (_, H::S(s)) => s.try_send_option_realtime(&mut o),
                            (_, H::AS(s)) => s.try_send_option_realtime(&mut o),
                            _ => unreachable!(),
                        };
                        opt_left = Some(o.is_some());
                        if let Some(x) = o {
                            hdrop(x)
                        }
                        match r {
                            Ok(true) => R::Ok,
                            Ok(false) => R::Refused,
                            Err(e) => R::Err(err_s(e)),
                        }
                    }
                };
                let failed = expected != R::Ok;
                if failed {
                    self.flags.insert("failed_send");
                    match opt_left {
                        None => {
                            self.exp_dropped.insert(id);
                        }
                        Some(_) => {}
                    }
                }
                if let Some(left) = opt_left {
                    if left != failed {
                        self.fail(
                            "option_protocol",
                            format!("{}: option is_some()={} after result {:?}", name, left, got),
                        );
                    }
                }
                self.check_result(&name, got, expected);
            }
            A::TrySendOptNone => {
                let Some(hi) = self.pick(Some(true), b1) else { return };
                self.trace.push("try_send_option(None)".into());
                let h = self.hs[hi].as_ref().unwrap();
                let mut o: Option<P<N>> = None;
                let r = catch_unwind(AssertUnwindSafe(|| match (b2 & 1, h) {
                    (0, H::S(s)) => s.try_send_option(&mut o).is_ok(),
                    (0, H::AS(s)) => s.try_send_option(&mut o).is_ok(),
                    (_, H::S(s)) => s.try_send_option_realtime(&mut o).is_ok(),
                    (_, H::AS(s)) => s.try_send_option_realtime(&mut o).is_ok(),
                    _ => unreachable!(),
                }));
                if r.is_ok() {
                    self.fail("missing_documented_panic", "try_send_option(None) did not panic".into());
                }
                self.flags.insert("documented_panic");
            }
            A::Recv | A::RecvTimeout0 | A::TryRecv | A::TryRecvRt | A::IterNext => {
                let Some(hi) = self.pick(Some(false), b1) else { return };
                let mut mm = self.m.clone();
                let probe = mm.recv();
                let mut a = a;
                if matches!(a, A::Recv | A::IterNext) && probe == RecvOut::Empty {
                    a = A::TryRecv;
                }
                if a == A::IterNext && !matches!(self.hs[hi], Some(H::R(_))) {
                    a = A::Recv;
                }
                let exp = self.m.recv();
                self.apply_woken();
                let name = format!("{:?}", a);
                self.trace.push(name.clone());
                #[derive(Debug, PartialEq)]
                enum R {
                    Val,
                    NoneV,
                    Err(m::Err),
                    End,
                }
                let mut alt: Option<R> = None;
                let (expected, expv) = match (&exp, a) {
                    (RecvOut::Val(v), _) => (R::Val, Some(*v)),
                    (RecvOut::Err(_), A::IterNext) => (R::End, None),
                    (RecvOut::Err(e), A::RecvTimeout0) => {
                        if *e == m::Err::SendClosed {
                            alt = Some(R::Err(m::Err::Timeout));
                        }
                        (R::Err(*e), None)
                    }
                    (RecvOut::Err(e), _) => (R::Err(*e), None),
                    (RecvOut::Empty, A::RecvTimeout0) => (R::Err(m::Err::Timeout), None),
                    (RecvOut::Empty, _) => (R::NoneV, None),
                };
                let h = self.hs[hi].as_mut().unwrap();
                let (got, val) = match a {
                    A::Recv => match h.rs().recv() {
                        Ok(v) => (R::Val, Some(v)),
                        Err(e) => (R::Err(err_r(e)), None),
                    },
                    A::IterNext => match h {
                        H::R(r) => match r.next() {
                            Some(v) => (R::Val, Some(v)),
                            None => (R::End, None),
                        },
                        _ => unreachable!(),
                    },
                    A::RecvTimeout0 => match h.rs().recv_timeout(Duration::ZERO) {
                        Ok(v) => (R::Val, Some(v)),
                        Err(e) => (R::Err(err_rt(e)), None),
                    },
                    _ => {
                        let r = match (a, &*h) {
                            (A::TryRecv, H::R(r)) => r.try_recv(),
                            (A::TryRecv, H::AR(r)) => r.try_recv(),
                            (_, H::R(r)) => r.try_recv_realtime(),
                            (_, H::AR(r)) => r.try_recv_realtime(),
                            _ => unreachable!(),
                        };
                        match r {
                            Ok(Some(v)) => (R::Val, Some(v)),
                            Ok(None) => (R::NoneV, None),
                            Err(e) => (R::Err(err_r(e)), None),
                        }
                    }
                };
                if let Some(v) = val {
                    self.got(&name, v, expv);
                }
                if alt.as_ref() == Some(&got) {
                    return;
                }
                self.check_result(&name, got, expected);
            }
            A::Drain => {
                let Some(hi) = self.pick(Some(false), b1) else { return };
                let nsent = (b2 >> 2) as usize % 3;
                let mode = b2 % 4;
                let mut vec: Vec<P<N>> = match mode {
                    0 => Vec::new(),
                    1 => Vec::with_capacity(8),
                    2 => Vec::with_capacity(nsent),
                    _ => Vec::with_capacity(nsent + 1),
                };
                let mut sent_ids = vec![];
                if mode >= 2 {
                    for _ in 0..nsent {
                        let id = 1_000_000 + self.next_id;
                        self.next_id += 1;
                        sent_ids.push(id);
                        vec.push(P::new(id));
                    }
                }
                let had_blocked = self.m.waiters.iter().any(|w| matches!(w, m::Waiter::S(..)));
                let exp = self.m.drain();
                self.apply_woken();
                self.trace.push(format!("Drain(mode={},prefix={})", mode, sent_ids.len()));
                let h = self.hs[hi].as_ref().unwrap();
                let r = match h {
                    H::R(r) => r.drain_into(&mut vec),
                    H::AR(r) => r.drain_into(&mut vec),
                    _ => unreachable!(),
                };
                let ids: Vec<u32> = vec.iter().map(|v| v.id).collect();
                let all_ok = vec.iter().all(|v| v.ok());
                let prefix_ok = ids.len() >= sent_ids.len() && ids[..sent_ids.len()] == sent_ids[..];
                let appended: Vec<u32> = ids.get(sent_ids.len()..).unwrap_or(&[]).to_vec();
                for v in vec {
                    hdrop(v);
                }
                if !prefix_ok || !all_ok {
                    self.fail("drain_prefix", format!("vector after drain: {:?}, prefix was {:?}", ids, sent_ids));
                }
                match (r, exp) {
                    (Ok(n), Ok(e)) => {
                        if n != appended.len() || appended != e {
                            self.fail(
                                "drain_mismatch",
                                format!("drain_into returned {} and appended {:?}; the model expected {:?}", n, appended, e),
                            );
                        }
                        for id in appended {
                            if !self.received.insert(id) {
                                self.fail("dup_recv", format!("drain returned value {} a second time", id));
                            }
                        }
                        if had_blocked {
                            self.flags.insert("drain_took_pending_sender");
                        }
                    }
                    (Err(e), Err(me)) => {
                        let ee = err_r(e);
                        if ee != me || !appended.is_empty() {
                            self.fail("drain_mismatch", format!("drain error {:?} vs model {:?}, appended {:?}", ee, me, appended));
                        }
                    }
                    (r, e) => self.fail("drain_mismatch", format!("drain_into returned {:?}, the model {:?}", r, e)),
                }
            }
            A::SendFutNew => {
                let Some(hi) = self.pick(Some(true), b1) else { return };
                let Some(slot) = self.futs.iter().position(|f| f.is_none()) else { return };
                let (id, v) = self.newval();
                self.trace.push(format!("SendFutNew(slot{},v{})", slot, id));
                let h = self.hs[hi].as_ref().unwrap();
                let f = h.sa().send(v);
                let f: SendFuture<'static, P<N>> = unsafe { std::mem::transmute(f) };
                let owner = self.next_owner;
                self.next_owner += 1;
                self.futs[slot] = Some(Fut {
                    obj: FObj::Send(Box::pin(f), id),
                    handle: hi,
                    owner,
                    st: FSt::Zero,
                    waker: 0,
                });
            }
            A::RecvFutNew => {
                let Some(hi) = self.pick(Some(false), b1) else { return };
                let Some(slot) = self.futs.iter().position(|f| f.is_none()) else { return };
                self.trace.push(format!("RecvFutNew(slot{})", slot));
                let h = self.hs[hi].as_ref().unwrap();
                let f = h.ra().recv();
                let f: ReceiveFuture<'static, P<N>> = unsafe { std::mem::transmute(f) };
                let owner = self.next_owner;
                self.next_owner += 1;
                self.futs[slot] = Some(Fut {
                    obj: FObj::Recv(Box::pin(f)),
                    handle: hi,
                    owner,
                    st: FSt::Zero,
                    waker: 0,
                });
            }
            A::PollFut => {
                let live: Vec<usize> = (0..self.futs.len()).filter(|&i| self.futs[i].is_some()).collect();
                if live.is_empty() {
                    return;
                }
                let slot = live[(b1 as usize * live.len()) >> 8];
                let k = (b2 % 3) as usize;
                let wk = self.waker(k);
                let mut f = self.futs[slot].take().unwrap();
                let name = format!("PollFut(slot{},w{})", slot, k);
                self.trace.push(name.clone());
                let mut cx = Context::from_waker(&wk);
                match &mut f.obj {
                    FObj::Send(fut, id) => {
                        let id = *id;
                        // model
                        let exp: Option<Poll<Result<(), m::Err>>> = match f.st {
                            FSt::Zero => Some(match self.m.send(id) {
                                SendOut::Ok => {
                                    self.apply_woken();
                                    f.st = FSt::Done;
                                    Poll::Ready(Ok(()))
                                }
                                SendOut::Err(e) => {
                                    f.st = FSt::Done;
                                    self.exp_dropped.insert(id);
                                    Poll::Ready(Err(e))
                                }
                                SendOut::Full => {
                                    self.m.register_send(id, f.owner);
                                    self.owner_waker.insert(f.owner, k);
                                    f.st = FSt::Waiting;
                                    self.flags.insert("registered_future");
                                    Poll::Pending
                                }
                            }),
                            FSt::Waiting => Some(match self.m.collect(f.owner) {
                                Some(Comp::Sent) => {
                                    f.st = FSt::Done;
                                    self.owner_waker.remove(&f.owner);
                                    Poll::Ready(Ok(()))
                                }
                                Some(_) => {
                                    f.st = FSt::Done;
                                    self.owner_waker.remove(&f.owner);
                                    self.exp_dropped.insert(id);
                                    Poll::Ready(Err(m::Err::Closed))
                                }
                                None => {
                                    if self.owner_waker.get(&f.owner) != Some(&k) {
                                        self.flags.insert("waker_change");
                                    } else {
                                        self.flags.insert("spurious_poll");
                                    }
                                    self.owner_waker.insert(f.owner, k);
                                    Poll::Pending
                                }
                            }),
                            FSt::Done => None,
                        };
                        let got = catch_unwind(AssertUnwindSafe(|| fut.as_mut().poll(&mut cx)));
                        match (got, exp) {
                            (Ok(p), Some(e)) => {
                                let p = p.map(|r| r.map_err(err_s));
                                self.check_result(&name, p, e);
                            }
                            (Err(_), None) => {
                                self.flags.insert("documented_panic");
                            }
                            (Ok(p), None) => self.fail(
                                "missing_documented_panic",
                                format!("{}: finished future polled again returned {:?} instead of panicking", name, p),
                            ),
                            (Err(_), Some(e)) => {
                                self.fail("unexpected_panic", format!("{} panicked; the model expected {:?}", name, e))
                            }
                        }
                    }
                    FObj::Recv(fut) => {
                        let mut st = f.st;
                        let exp = self.model_recv_poll(f.owner, &mut st, k, false);
                        f.st = st;
                        let got = catch_unwind(AssertUnwindSafe(|| fut.as_mut().poll(&mut cx)));
                        match (got, exp) {
                            (Ok(p), Some(e)) => {
                                let (p2, val) = match p {
                                    Poll::Ready(Ok(v)) => (Poll::Ready(Ok(v.id)), Some(v)),
                                    Poll::Ready(Err(er)) => (Poll::Ready(Err(err_r(er))), None),
                                    Poll::Pending => (Poll::Pending, None),
                                };
                                if let Some(v) = val {
                                    let ev = match &e {
                                        Poll::Ready(Ok(x)) => Some(*x),
                                        _ => None,
                                    };
                                    self.got(&name, v, ev);
                                }
                                self.check_result(&name, p2, e);
                            }
                            (Err(_), None) => {
                                self.flags.insert("documented_panic");
                            }
                            (Ok(p), None) => {
                                let d = format!("{:?}", p.map(|r| r.map(|v| v.id)));
                                self.fail(
                                    "missing_documented_panic",
                                    format!("{}: finished future polled again returned {} instead of panicking", name, d),
                                );
                            }
                            (Err(_), Some(e)) => {
                                self.fail("unexpected_panic", format!("{} panicked; the model expected {:?}", name, e))
                            }
                        }
                    }
                }
                f.waker = k;
                self.futs[slot] = Some(f);
            }
            A::DropFut => {
                let live: Vec<usize> = (0..self.futs.len()).filter(|&i| self.futs[i].is_some()).collect();
                if live.is_empty() {
                    return;
                }
                let slot = live[(b1 as usize * live.len()) >> 8];
                self.trace.push(format!("DropFut(slot{})", slot));
                self.drop_fut(slot);
            }
            A::StreamNew => {
                if self.strm.is_some() {
                    return;
                }
                let Some(hi) = self.pick(Some(false), b1) else { return };
                self.trace.push("StreamNew".into());
                let h = self.hs[hi].as_ref().unwrap();
                let s = h.ra().stream();
                let s: ReceiveStream<'static, P<N>> = unsafe { std::mem::transmute(s) };
                let owner = self.next_owner;
                self.next_owner += 1;
                self.strm = Some(Strm {
                    obj: Box::pin(s),
                    handle: hi,
                    owner,
                    st: FSt::Zero,
                    waker: 0,
                    terminated: false,
                });
            }
            A::StreamPoll => {
                let Some(mut s) = self.strm.take() else { return };
                let k = (b2 % 3) as usize;
                let wk = self.waker(k);
                let name = format!("StreamPoll(w{})", k);
                self.trace.push(name.clone());
                let mut cx = Context::from_waker(&wk);
                let exp: Poll<Option<u32>> = if s.terminated {
                    self.flags.insert("stream_polled_after_end");
                    Poll::Ready(None)
                } else {
                    let mut st = s.st;
                    let e = self.model_recv_poll(s.owner, &mut st, k, true).unwrap();
                    s.st = st;
                    match e {
                        Poll::Ready(Ok(v)) => Poll::Ready(Some(v)),
                        Poll::Ready(Err(_)) => {
                            s.terminated = true;
                            Poll::Ready(None)
                        }
                        Poll::Pending => Poll::Pending,
                    }
                };
                let got = catch_unwind(AssertUnwindSafe(|| s.obj.as_mut().poll_next(&mut cx)));
                match got {
                    Ok(p) => {
                        let (p2, val) = match p {
                            Poll::Ready(Some(v)) => (Poll::Ready(Some(v.id)), Some(v)),
                            Poll::Ready(None) => (Poll::Ready(None), None),
                            Poll::Pending => (Poll::Pending, None),
                        };
                        if let Some(v) = val {
                            let ev = match &exp {
                                Poll::Ready(Some(x)) => Some(*x),
                                _ => None,
                            };
                            self.got(&name, v, ev);
                        }
                        self.check_result(&name, p2, exp);
                    }
                    Err(_) => self.fail("unexpected_panic", format!("{} panicked; the model expected {:?}", name, exp)),
                }
                // FusedStream::is_terminated is documented as the receiver's is_terminated
                {
                    use futures_core::FusedStream;
                    let t = s.obj.is_terminated();
                    let mo = self.m.observe();
                    if t != mo.is_terminated {
                        self.fail(
                            "observer_mismatch",
                            format!("FusedStream::is_terminated() = {}, the model says {}", t, mo.is_terminated),
                        );
                    }
                }
                s.waker = k;
                self.strm = Some(s);
            }
            A::StreamDrop => {
                if self.strm.is_some() {
                    self.trace.push("StreamDrop".into());
                    self.drop_stream();
                }
            }
            A::CloneSame | A::CloneCross => {
                let Some(hi) = self.pick(None, b1) else { return };
                let cross = a == A::CloneCross;
                self.trace.push(format!("{:?}(h{})", a, hi));
                let h = self.hs[hi].as_ref().unwrap();
                let n = match (h, cross) {
                    (H::S(s), false) => H::S(Box::new((**s).clone())),
                    (H::S(s), true) => H::AS(Box::new(s.clone_async())),
                    (H::AS(s), false) => H::AS(Box::new((**s).clone())),
                    (H::AS(s), true) => H::S(Box::new(s.clone_sync())),
                    (H::R(r), false) => H::R(Box::new((**r).clone())),
                    (H::R(r), true) => H::AR(Box::new(r.clone_async())),
                    (H::AR(r), false) => H::AR(Box::new((**r).clone())),
                    (H::AR(r), true) => H::R(Box::new(r.clone_sync())),
                };
                self.m.clone_side(n.is_send());
                self.hs.push(Some(n));
                self.live_handles += 1;
                if cross {
                    self.flags.insert("cross_clone");
                }
            }
            A::SendBurst => {
                let Some(hi) = self.pick(Some(true), b1) else { return };
                let n = if b2 % 8 == 7 && !small_bursts() { 1100 } else { 40 };
                self.trace.push(format!("SendBurst(h{},{})", hi, n));
                for _ in 0..n {
                    let (id, v) = self.newval();
                    let exp = self.m.send(id);
                    self.apply_woken();
                    let h = self.hs[hi].as_ref().unwrap();
                    let r = match h {
                        H::S(s) => s.try_send(v),
                        H::AS(s) => s.try_send(v),
                        _ => unreachable!(),
                    };
                    let (got, expd) = (
                        match r {
                            Ok(true) => 0,
                            Ok(false) => 1,
                            Err(_) => 2,
                        },
                        match exp {
                            SendOut::Ok => 0,
                            SendOut::Full => 1,
                            SendOut::Err(_) => 2,
                        },
                    );
                    if expd != 0 {
                        self.exp_dropped.insert(id);
                    }
                    if got != expd {
                        self.fail("result_mismatch", format!("try_send #{} of a burst: kanal {:?}, model {:?}", id, r, exp));
                        return;
                    }
                }
                self.observe(hi);
                self.flags.insert("send_burst");
            }
            A::FutBurst => {
                let n = if small_bursts() { 6 } else { 36 };
                let send = b2 & 1 == 0;
                self.trace.push(format!("FutBurst({} x {})", n, if send { "send" } else { "recv" }));
                for _ in 0..n {
                    if !self.viol.is_empty() {
                        return;
                    }
                    let Some(slot) = self.futs.iter().position(|f| f.is_none()) else { break };
                    self.step_a(if send { A::SendFutNew } else { A::RecvFutNew }, b1, 0);
                    if self.futs[slot].is_none() {
                        break; // no handle of that side
                    }
                    // first poll of exactly that future, waker from b2
                    let live: Vec<usize> = (0..self.futs.len()).filter(|&i| self.futs[i].is_some()).collect();
                    let j = live.iter().position(|&x| x == slot).unwrap();
                    let sel = ((j * 256 + live.len() - 1) / live.len()) as u8;
                    self.step_a(A::PollFut, sel, b2 >> 1);
                }
                self.flags.insert("fut_burst");
            }
            A::CloneFrom => {
                let Some(hi) = self.pick(None, b1) else { return };
                self.trace.push(format!("CloneFrom(h{})", hi));
                let h = self.hs[hi].as_ref().unwrap();
                // (other channel's observer of the side that loses its handle, new handle of this channel)
                let (other_count, other_disc, n): (u32, bool, H<P<N>>) = match h {
                    H::S(src) => {
                        let (mut s2, r2) = bounded::<P<N>>(1);
                        s2.clone_from(src);
                        (r2.sender_count(), r2.is_disconnected(), H::S(Box::new(s2)))
                    }
                    H::AS(src) => {
                        let (mut s2, r2) = bounded_async::<P<N>>(1);
                        s2.clone_from(src);
                        (r2.sender_count(), r2.is_disconnected(), H::AS(Box::new(s2)))
                    }
                    H::R(src) => {
                        let (s2, mut r2) = bounded::<P<N>>(1);
                        r2.clone_from(src);
                        (s2.receiver_count(), s2.is_disconnected(), H::R(Box::new(r2)))
                    }
                    H::AR(src) => {
                        let (s2, mut r2) = bounded_async::<P<N>>(1);
                        r2.clone_from(src);
                        (s2.receiver_count(), s2.is_disconnected(), H::AR(Box::new(r2)))
                    }
                };
                if other_count != 0 || !other_disc {
                    self.fail(
                        "count_mismatch",
                        format!("after clone_from the abandoned channel still counts {} handle(s) of that side (disconnected: {})", other_count, other_disc),
                    );
                }
                self.m.clone_side(n.is_send());
                self.hs.push(Some(n));
                self.live_handles += 1;
                self.observe(hi);
                self.flags.insert("cross_clone");
            }
            A::CloneBurst => {
                let Some(hi) = self.pick(None, b1) else { return };
                self.trace.push(format!("CloneBurst(h{})", hi));
                let mut burst: Vec<H<P<N>>> = Vec::new();
                // usually 70 clones; rarely enough to cross a 16-bit counter
                let n_clones = if b2 == 255 && !small_bursts() { 66_000 } else { 70 };
                for j in 0..n_clones {
                    let h = self.hs[hi].as_ref().unwrap();
                    let cross = (j + b2 as usize) % 3 == 0;
                    let n = match (h, cross) {
                        (H::S(s), false) => H::S(Box::new((**s).clone())),
                        (H::S(s), true) => H::AS(Box::new(s.clone_async())),
                        (H::AS(s), false) => H::AS(Box::new((**s).clone())),
                        (H::AS(s), true) => H::S(Box::new(s.clone_sync())),
                        (H::R(r), false) => H::R(Box::new((**r).clone())),
                        (H::R(r), true) => H::AR(Box::new(r.clone_async())),
                        (H::AR(r), false) => H::AR(Box::new((**r).clone())),
                        (H::AR(r), true) => H::R(Box::new(r.clone_sync())),
                    };
                    self.m.clone_side(n.is_send());
                    burst.push(n);
                }
                self.observe(hi);
                // keep one clone (so the burst also leaves a trace in the handle table), drop the rest
                let keep = burst.pop().unwrap();
                for h in burst {
                    let side = h.is_send();
                    self.m.drop_side(side);
                    self.apply_woken();
                    drop(h);
                }
                self.hs.push(Some(keep));
                self.live_handles += 1;
                self.observe(hi);
                self.flags.insert("clone_burst");
            }
            A::Convert => {
                let Some(hi) = self.pick(None, b1) else { return };
                self.trace.push(format!("Convert(h{})", hi));
                self.drop_borrowers(hi);
                let h = self.hs[hi].take().unwrap();
                let n = match h {
                    H::S(s) => H::AS(Box::new((*s).to_async())),
                    H::AS(s) => H::S(Box::new((*s).to_sync())),
                    H::R(r) => H::AR(Box::new((*r).to_async())),
                    H::AR(r) => H::R(Box::new((*r).to_sync())),
                };
                self.hs[hi] = Some(n);
                self.flags.insert("convert");
            }
            A::DropHandle => {
                let Some(hi) = self.pick(None, b1) else { return };
                self.trace.push(format!("DropHandle(h{})", hi));
                if hi + 1 != self.hs.len() {
                    self.flags.insert("drop_out_of_order");
                }
                self.drop_handle(hi);
            }
            A::Close => {
                let Some(hi) = self.pick(None, b1) else { return };
                self.trace.push(format!("Close(h{})", hi));
                if !self.m.waiters.is_empty() {
                    self.flags.insert("close_with_waiters");
                }
                let q: Vec<u32> = self.m.queue.iter().copied().collect();
                let exp = self.m.close();
                self.apply_woken();
                if exp {
                    self.exp_dropped.extend(q);
                }
                let h = self.hs[hi].as_ref().unwrap();
                let r = match h {
                    H::S(h) => h.close(),
                    H::AS(h) => h.close(),
                    H::R(h) => h.close(),
                    H::AR(h) => h.close(),
                };
                self.check_result("close", r.is_ok(), exp);
            }
            A::Observe => {
                let Some(hi) = self.pick(None, b1) else { return };
                self.observe(hi);
            }
        }
    }

    fn drop_handle(&mut self, hi: usize) {
        self.drop_borrowers(hi);
        let h = self.hs[hi].take().unwrap();
        let side = h.is_send();
        if !self.m.waiters.is_empty() {
            self.flags.insert("drop_with_waiters");
        }
        self.m.drop_side(side);
        self.apply_woken();
        self.live_handles -= 1;
        if self.live_handles == 0 {
            // the channel itself goes away: everything still queued is destroyed
            let q: Vec<u32> = self.m.queue.drain(..).collect();
            self.exp_dropped.extend(q);
        }
        drop(h);
    }

    fn observe(&mut self, hi: usize) {
        let o = self.m.observe();
        let h = self.hs[hi].as_ref().unwrap();
        macro_rules! common {
            ($h:expr) => {
                (
                    $h.len(),
                    $h.is_empty(),
                    $h.is_full(),
                    $h.capacity(),
                    $h.is_bounded(),
                    $h.sender_count(),
                    $h.receiver_count(),
                    $h.is_closed(),
                    $h.is_disconnected(),
                )
            };
        }
        let (got, term) = match h {
            H::S(h) => (common!(h), None),
            H::AS(h) => (common!(h), None),
            H::R(h) => (common!(h), Some(h.is_terminated())),
            H::AR(h) => (common!(h), Some(h.is_terminated())),
        };
        let send = h.is_send();
        let exp = (
            o.len,
            o.is_empty,
            o.is_full,
            o.capacity,
            o.is_bounded,
            o.senders,
            o.receivers,
            o.is_closed,
            if send { o.s_disconnected } else { o.r_disconnected },
        );
        self.trace.push(format!("Observe(h{})", hi));
        if got != exp {
            let pred = if got.5 != exp.5 || got.6 != exp.6 { "count_mismatch" } else { "observer_mismatch" };
            self.fail(pred, format!("observers (len,is_empty,is_full,capacity,is_bounded,senders,receivers,is_closed,is_disconnected): kanal {:?}, model {:?}", got, exp));
        }
        if let Some(t) = term {
            if t != o.is_terminated {
                self.fail("observer_mismatch", format!("is_terminated: kanal {}, model {}", t, o.is_terminated));
            }
        }
    }

    /// after every step: wake counters and destroyed set
    fn invariants(&mut self, after: &str) {
        for k in 0..self.wakers.len() {
            let got = self.wakers[k].0 .0.load(Ordering::SeqCst);
            if got != self.exp_wakes[k] {
                self.fail(
                    "wake_mismatch",
                    format!("after {}: waker {} woken {} time(s), the model expects {}", after, k, got, self.exp_wakes[k]),
                );
                self.exp_wakes[k] = got;
            }
        }
        let (dropped, twice): (BTreeSet<u32>, Vec<u32>) = LED.with(|l| {
            let l = l.borrow();
            (
                l.dropped.keys().copied().collect(),
                l.dropped.iter().filter(|(_, n)| **n > 1).map(|(k, _)| *k).collect(),
            )
        });
        if !twice.is_empty() {
            self.fail("double_drop", format!("after {}: values {:?} destroyed more than once", after, twice));
        }
        if dropped != self.exp_dropped {
            let extra: Vec<_> = dropped.difference(&self.exp_dropped).collect();
            let missing: Vec<_> = self.exp_dropped.difference(&dropped).collect();
            self.fail(
                "destroyed_set_mismatch",
                format!("after {}: destroyed by kanal but not by the model {:?}; by the model but not by kanal {:?}", after, extra, missing),
            );
            self.exp_dropped = dropped;
        }
    }
}

fn run_world<const N: usize>(case: &SCase, caps: &[Option<usize>]) -> (World<N>, bool) {
    LED.with(|l| *l.borrow_mut() = Led::default());
    let cap = caps[(case.cfg[0] as usize * caps.len()) >> 8];
    let async_ctor = case.cfg[1] & 1 != 0;
    let mut hs: Vec<Option<H<P<N>>>> = Vec::new();
    match (cap, async_ctor) {
        (Some(n), false) => {
            let (s, r) = bounded(n);
            hs.push(Some(H::S(Box::new(s))));
            hs.push(Some(H::R(Box::new(r))));
        }
        (Some(n), true) => {
            let (s, r) = bounded_async(n);
            hs.push(Some(H::AS(Box::new(s))));
            hs.push(Some(H::AR(Box::new(r))));
        }
        (None, false) => {
            let (s, r) = unbounded();
            hs.push(Some(H::S(Box::new(s))));
            hs.push(Some(H::R(Box::new(r))));
        }
        (None, true) => {
            let (s, r) = unbounded_async();
            hs.push(Some(H::AS(Box::new(s))));
            hs.push(Some(H::AR(Box::new(r))));
        }
    }
    let wakers: Vec<(Arc<CountWaker>, Waker)> = (0..3)
        .map(|_| {
            let a = Arc::new(CountWaker(AtomicU32::new(0)));
            (a.clone(), Waker::from(a))
        })
        .collect();
    let mut w = World::<N> {
        hs,
        futs: (0..48).map(|_| None).collect(),
        strm: None,
        m: Chan::new(cap, 1, 1),
        next_id: 0,
        next_owner: 1,
        wakers,
        exp_wakes: vec![0; 3],
        exp_dropped: BTreeSet::new(),
        created: BTreeSet::new(),
        received: BTreeSet::new(),
        owner_waker: BTreeMap::new(),
        trace: Vec::new(),
        flags: BTreeSet::new(),
        viol: Vec::new(),
        live_handles: 2,
        in_queue_at_end: false,
        mask: u32::from_le_bytes([case.cfg[3], case.cfg[4], case.cfg[5], case.cfg[6]]) & ((1 << 30) - 1),
    };
    let mut panicked = false;
    for op in case.ops.iter() {
        let before = w.trace.len();
        let r = catch_unwind(AssertUnwindSafe(|| w.step(*op)));
        if r.is_err() {
            let last = w.trace.last().cloned().unwrap_or_default();
            w.fail("unexpected_panic", format!("panic during {}", last));
            panicked = true;
            break;
        }
        if w.trace.len() > before {
            let last = w.trace.last().cloned().unwrap();
            w.invariants(&last);
        }
        if !w.viol.is_empty() {
            break;
        }
    }
    if !panicked && w.viol.is_empty() {
        // tear down: futures, stream, then handles in reverse order; the ledger must close
        for i in 0..w.futs.len() {
            w.drop_fut(i);
        }
        w.drop_stream();
        for hi in (0..w.hs.len()).rev() {
            if w.hs[hi].is_some() {
                w.drop_handle(hi);
            }
        }
        w.invariants("teardown");
        // every created value has exactly one fate
        let dropped: BTreeSet<u32> = LED.with(|l| l.borrow().dropped.keys().copied().collect());
        for id in w.created.clone() {
            let fates = w.received.contains(&id) as u32 + dropped.contains(&id) as u32;
            // values handed back through an Option were destroyed by the harness
            if fates > 1 {
                w.fail("double_fate", format!("value {} was both received and destroyed", id));
            }
        }
    } else {
        // leak everything that is left: the state may be inconsistent
        let hs = std::mem::take(&mut w.hs);
        let futs = std::mem::take(&mut w.futs);
        let strm = w.strm.take();
        std::mem::forget(futs);
        std::mem::forget(strm);
        std::mem::forget(hs);
    }
    (w, panicked)
}

pub struct SeqEng;

pub fn caps_for(tier: &str) -> Vec<Option<usize>> {
    if tier == "thorough" {
        vec![Some(0), Some(1), Some(2), Some(3), Some(5), None]
    } else {
        vec![Some(0), Some(1), Some(2), None]
    }
}

fn preds_for(prop: &str) -> Option<&'static [&'static str]> {
    match prop {
        "C18" => None, // everything
        "C16" => Some(&[
            "result_mismatch",
            "wake_mismatch",
            "missing_documented_panic",
            "unexpected_panic",
            "dup_recv",
            "wrong_value",
            "corrupt_value",
        ]),
        "C12" => Some(&["count_mismatch", "unexpected_panic"]),
        // single-thread part of exactly-once: every value out once, the right one, nothing invented
        "C01" => Some(&[
            "dup_recv",
            "wrong_value",
            "corrupt_value",
            "drain_mismatch",
            "double_fate",
            "destroyed_set_mismatch",
            "double_drop",
            "unexpected_panic",
        ]),
        // single-thread part of capacity: refusals / acceptance and len / is_full exactly as the model
        "C08" => Some(&["result_mismatch", "observer_mismatch", "unexpected_panic"]),
        _ => Some(&[]),
    }
}

fn nontrivial(prop: &str, flags: &BTreeSet<&'static str>) -> bool {
    let has = |k: &str| flags.contains(k);
    match prop {
        "C18" => {
            has("registered_future")
                && (has("cancel_registered_send_future")
                    || has("cancel_registered_recv_future")
                    || has("cancel_registered_stream")
                    || has("close_with_waiters")
                    || has("drop_with_waiters"))
        }
        "C16" => has("spurious_poll") || has("waker_change") || has("stream_second_wait"),
        "C12" => (has("cross_clone") || has("convert")) && has("drop_out_of_order"),
        "C01" => has("drain_took_pending_sender") || has("send_burst") || has("fut_burst") || has("registered_future"),
        "C08" => has("send_on_full") || has("send_burst"),
        _ => true,
    }
}

pub fn run_case(prop: &str, case: &SCase, tier_caps: &[Option<usize>]) -> CaseOut {
    // payload size classes: 4 bytes (smaller than a pointer), 8 (equal), 24 (larger)
    let size_class = case.cfg[2] % 3;
    let large = size_class == 2;
    let (viol, flags, trace) = match size_class {
        2 => {
            let (w, _) = run_world::<20>(case, tier_caps);
            (w.viol.clone(), w.flags.clone(), w.trace.clone())
        }
        1 => {
            let (w, _) = run_world::<4>(case, tier_caps);
            (w.viol.clone(), w.flags.clone(), w.trace.clone())
        }
        _ => {
            let (w, _) = run_world::<0>(case, tier_caps);
            (w.viol.clone(), w.flags.clone(), w.trace.clone())
        }
    };
    let mut co = CaseOut::default();
    let set = preds_for(prop);
    for (p, d) in viol.iter() {
        let mine = match set {
            None => true,
            Some(l) => l.contains(&p.as_str()),
        };
        if mine {
            co.viols.push((p.clone(), format!("{}/{}/seq", prop, p), d.clone()));
        } else {
            co.other.push(p.clone());
        }
    }
    co.classes = flags.iter().map(|f| (f.to_string(), 1)).collect();
    co.classes.push(("ops_executed".into(), trace.len() as u32));
    if nontrivial(prop, &flags) {
        let mut h = std::collections::hash_map::DefaultHasher::new();
        (case.cfg[0], case.cfg[1] & 1, case.cfg[2] % 3, &trace).hash(&mut h);
        co.nontrivial = Some(h.finish());
    }
    co.sample = json!({
        "case_hex": case.to_hex(),
        "capacity": format!("{:?}", tier_caps[(case.cfg[0] as usize * tier_caps.len()) >> 8]),
        "ctor": if case.cfg[1] & 1 != 0 { "async" } else { "sync" },
        "payload_bytes": if large { 24 } else if size_class == 1 { 8 } else { 4 },
        "history": trace,
        "flags": flags.iter().collect::<Vec<_>>(),
        "swarm_mask": format!("{:07x}", u32::from_le_bytes([case.cfg[3], case.cfg[4], case.cfg[5], case.cfg[6]]) & ((1 << 30) - 1)),
    });
    co
}

impl Engine for SeqEng {
    type Case = SCase;
    fn strategy(&self, _prop: &str, tier: &str) -> BoxedStrategy<SCase> {
        let maxlen = if tier == "thorough" { 80 } else { 60 };
        // half of the histories use the whole alphabet, half a generated subset of it (swarm)
        (any::<[u8; 3]>(), any::<bool>(), any::<[u8; 4]>(), prop::collection::vec(any::<[u8; 3]>(), 0..=maxlen))
            .prop_map(|(c, swarm, m, ops)| {
                let m = if swarm { m } else { [0; 4] };
                SCase { cfg: [c[0], c[1], c[2], m[0], m[1], m[2], m[3]], ops }
            })
            .boxed()
    }
    fn run(&self, prop: &str, case: &SCase) -> CaseOut {
        let tier = driver::case_tier();
        run_case(prop, case, &caps_for(&tier))
    }
    fn encode(&self, case: &SCase) -> String {
        case.to_hex()
    }
    fn decode(&self, s: &str) -> SCase {
        SCase::from_hex(s.trim())
    }
    fn regressions(&self, prop: &str) -> Vec<(String, Option<String>)> {
        let mut v = Vec::new();
        let dir = PathBuf::from(driver::VERIF).join("regressions").join("seq");
        if let Ok(rd) = std::fs::read_dir(&dir) {
            let mut files: Vec<_> = rd.flatten().map(|e| e.path()).collect();
            files.sort();
            for f in files {
                let name = f.file_name().unwrap().to_string_lossy().to_string();
                if name.starts_with(prop) || name.starts_with("ALL") {
                    if let Ok(s) = std::fs::read_to_string(&f) {
                        if let Ok(j) = serde_json::from_str::<serde_json::Value>(&s) {
                            if let Some(c) = j["case"].as_str() {
                                v.push((c.to_string(), j["profile"].as_str().map(|s| s.to_string())));
                            }
                        }
                    }
                }
            }
        }
        v
    }
}

pub fn rule_text(prop: &str) -> &'static str {
    match prop {
        "C18" => "single-thread histories over the full API alphabet (30 call kinds incl. futures, stream, conversions, zero-duration timed calls, observers) executed in lock-step against the reference model on the unhooked crate; random histories up to 60-80 calls; non-trivial = a future/stream registered in the waiting list and then a cancel, close or disconnect happened; distinct = hash(capacity, constructor, payload size, executed call sequence)",
        "C16" => "single-thread poll scripts: every poll's result, every waker's wake count and every value checked against the model; non-trivial = history contains a spurious poll of a registered future, a waker change, or a second wait on one stream; distinct = hash(config, executed call sequence)",
        "C01" => "single-thread histories (incl. bursts of 40 / 1100 sends and drains) in lock-step with the reference model: every value comes out exactly once, the expected one; the set of values destroyed by the library equals the model's after every call; non-trivial = a drain took a pending sender, a send burst, or a registered future; distinct = hash(config, executed call sequence)",
        "C08" => "single-thread histories in lock-step with the reference model: every send-like call is accepted / refused / blocked exactly as the model's capacity rule says (incl. bursts of 1100 try_sends on every capacity), len / is_full / capacity as the model; non-trivial = a send met a full buffer or a burst was sent; distinct = hash(config, executed call sequence)",
        "C12" => "single-thread clone/convert/drop/close histories with observers compared to the model's handle counts after every call; non-trivial = a cross-flavour clone or conversion and a drop out of creation order; distinct = hash(config, executed call sequence)",
        _ => "",
    }
}

// ---------------------------------------------------------------------------
// bounded-exhaustive enumeration
// ---------------------------------------------------------------------------

fn byte_for(a: A) -> u8 {
    (0..=255u8).find(|b| pick_a(*b) == a).expect("every call kind is reachable")
}

fn letters(reduced: bool) -> Vec<[u8; 3]> {
    let l = |a: A, b1: u8, b2: u8| [byte_for(a), b1, b2];
    if reduced {
        vec![
            l(A::Send, 0, 0),
            l(A::TrySend, 0, 0),
            l(A::SendTimeout0, 0, 0),
            l(A::TrySendOpt, 0, 0),
            l(A::Recv, 0, 0),
            l(A::TryRecv, 0, 0),
            l(A::RecvTimeout0, 0, 0),
            l(A::Drain, 0, 0),
            l(A::SendFutNew, 0, 0),
            l(A::RecvFutNew, 0, 0),
            l(A::PollFut, 0, 0),
            l(A::PollFut, 255, 1),
            l(A::DropFut, 0, 0),
            l(A::StreamNew, 0, 0),
            l(A::StreamPoll, 0, 0),
            l(A::StreamPoll, 0, 1),
            l(A::CloneCross, 0, 0),
            l(A::CloneSame, 255, 0),
            l(A::Convert, 255, 0),
            l(A::DropHandle, 0, 0),
            l(A::DropHandle, 255, 0),
            l(A::Close, 0, 0),
        ]
    } else {
        vec![
            l(A::Send, 0, 0),
            l(A::SendTimeout0, 0, 0),
            l(A::SendOptTimeout0, 0, 0),
            l(A::TrySend, 0, 0),
            l(A::TrySendOpt, 0, 0),
            l(A::TrySendRt, 0, 0),
            l(A::TrySendOptRt, 0, 0),
            l(A::Recv, 0, 0),
            l(A::RecvTimeout0, 0, 0),
            l(A::TryRecv, 0, 0),
            l(A::TryRecvRt, 0, 0),
            l(A::Drain, 0, 0),
            l(A::Drain, 0, 7),
            l(A::IterNext, 0, 0),
            l(A::SendFutNew, 0, 0),
            l(A::RecvFutNew, 0, 0),
            l(A::PollFut, 0, 0),
            l(A::PollFut, 0, 1),
            l(A::PollFut, 255, 0),
            l(A::PollFut, 255, 1),
            l(A::DropFut, 0, 0),
            l(A::DropFut, 255, 0),
            l(A::StreamNew, 0, 0),
            l(A::StreamPoll, 0, 0),
            l(A::StreamPoll, 0, 1),
            l(A::StreamDrop, 0, 0),
            l(A::CloneSame, 0, 0),
            l(A::CloneSame, 255, 0),
            l(A::CloneCross, 0, 0),
            l(A::CloneCross, 255, 0),
            l(A::Convert, 0, 0),
            l(A::Convert, 255, 0),
            l(A::DropHandle, 0, 0),
            l(A::DropHandle, 255, 0),
            l(A::Close, 0, 0),
            l(A::Observe, 0, 0),
            l(A::Observe, 255, 0),
            l(A::TrySendOptNone, 0, 0),
        ]
    }
}

struct ExOut {
    evaluations: u64,
    nontrivial: u64,
    failure: Option<(SCase, Vec<(String, String, String)>)>,
    sample: Option<serde_json::Value>,
}

/// Enumerate every history of exactly `depth` letters (shorter ones are prefixes of
/// them: a violation stops a history at the failing call) over all 16 configurations.
fn exhaust(prop: &str, depth: u32, reduced: bool, threads: u64) -> ExOut {
    let ls = letters(reduced);
    let n = ls.len() as u64;
    let total = n.pow(depth);
    let caps = caps_for("quick");
    let tail = [[byte_for(A::Observe), 0, 0], [byte_for(A::Observe), 255, 0]];
    // watchdog: the enumeration runs in this process; a history that never returns (possible
    // only on a badly broken crate) must not hang the check: exit 2, inconclusive
    let progress = std::sync::Arc::new(AtomicU32::new(0));
    {
        let progress = progress.clone();
        std::thread::spawn(move || {
            let mut last = u32::MAX;
            let mut idle = 0;
            loop {
                std::thread::sleep(Duration::from_secs(1));
                let p = progress.load(Ordering::Relaxed);
                if p == last {
                    idle += 1;
                } else {
                    idle = 0;
                    last = p;
                }
                if p == u32::MAX {
                    return;
                }
                if idle >= 60 {
                    println!("HANG (inconclusive, not a violation): the exhaustive phase stopped making progress");
                    std::process::exit(2);
                }
            }
        });
    }
    let progress2 = progress.clone();
    let results: Vec<ExOut> = std::thread::scope(|sc| {
        let mut hs = Vec::new();
        for w in 0..threads {
            let ls = &ls;
            let caps = &caps;
            let progress = progress.clone();
            hs.push(sc.spawn(move || {
                let mut out = ExOut { evaluations: 0, nontrivial: 0, failure: None, sample: None };
                let mut idx = w;
                while idx < total {
                    let mut ops = Vec::with_capacity(depth as usize + 2);
                    let mut x = idx;
                    for _ in 0..depth {
                        ops.push(ls[(x % n) as usize]);
                        x /= n;
                    }
                    ops.extend_from_slice(&tail);
                    for cfg in 0..24u8 {
                        let case = SCase {
                            cfg: [(cfg & 3) * 64, (cfg >> 2) & 1, cfg >> 3, 0, 0, 0, 0],
                            ops: ops.clone(),
                        };
                        let o = run_case(prop, &case, caps);
                        progress.fetch_add(1, Ordering::Relaxed);
                        out.evaluations += 1;
                        if o.nontrivial.is_some() {
                            out.nontrivial += 1;
                            if out.sample.is_none() {
                                out.sample = Some(o.sample.clone());
                            }
                        }
                        if !o.viols.is_empty() && out.failure.is_none() {
                            out.failure = Some((case, o.viols.clone()));
                            return out;
                        }
                    }
                    idx += threads;
                }
                out
            }));
        }
        hs.into_iter().map(|h| h.join().unwrap()).collect()
    });
    progress2.store(u32::MAX, Ordering::Relaxed);
    let mut m = ExOut { evaluations: 0, nontrivial: 0, failure: None, sample: None };
    for r in results {
        m.evaluations += r.evaluations;
        m.nontrivial += r.nontrivial;
        if m.failure.is_none() {
            m.failure = r.failure;
        }
        if m.sample.is_none() {
            m.sample = r.sample;
        }
    }
    m
}

/// Runs the exhaustive phases of a tier and appends them to the evidence file.
pub fn exhaustive_phase(prop: &str, tier: &str, seed: u64) -> i32 {
    let t0 = std::time::Instant::now();
    let plan: Vec<(u32, bool)> = if tier == "thorough" { vec![(3, false), (4, false), (5, true)] } else { vec![(3, false)] };
    let threads: u64 = std::env::var("VERIF_WORKERS").ok().and_then(|s| s.parse().ok()).unwrap_or(16);
    let mut code = 0;
    for (depth, reduced) in plan {
        let r = exhaust(prop, depth, reduced, threads);
        let nl = letters(reduced).len();
        let mut violations = 0;
        if let Some((case, viols)) = &r.failure {
            let enc = case.to_hex();
            let rdir = driver::out_base().join("replays");
            let _ = std::fs::create_dir_all(&rdir);
            let rpath = rdir.join(format!("{}-{:016x}.json", prop, driver::digest(&enc)));
            let o = run_case(prop, case, &caps_for("quick"));
            let rv = json!({
                "property": prop, "engine": "seq", "case": enc, "from": format!("exhaustive depth {}", depth),
                "predicate": viols[0].0,
                "violations": viols.iter().map(|v| json!({"predicate": v.0, "signature": v.1, "detail": v.2})).collect::<Vec<_>>(),
                "sample": o.sample,
            });
            std::fs::write(&rpath, serde_json::to_vec_pretty(&rv).unwrap()).expect("write replay");
            println!("VIOLATION property={} replay={}", prop, rpath.display());
            for v in viols.iter().take(3) {
                println!("  {}: {}", v.0, v.2);
            }
            violations = 1;
            code = 1;
        }
        let ev = json!({
            "property_id": prop, "tier": tier, "seed": seed, "level": "exploration",
            "coverage": {
                "engine": format!("seq-exhaustive-d{}", depth),
                "evaluations": r.evaluations,
                "distinct_nontrivial": r.nontrivial,
                "exhaustive": r.failure.is_none(),
                "rule": format!("bounded-exhaustive: every history of {} calls over a canonical alphabet of {} letters ({}), followed by observers on the first and last handle, x capacity {{0,1,2,unbounded}} x constructor {{sync,async}} x payload {{4,8,24 bytes}}; each history is distinct by construction; non-trivial by the property's rule", depth, nl, if reduced {"reduced alphabet"} else {"full alphabet"}),
                "samples": r.sample.iter().cloned().collect::<Vec<_>>(),
                "inconclusive": 0,
            },
            "assumptions": ["the reference model (common/src/model.rs) is the specification"],
            "wall_s": t0.elapsed().as_secs_f64(),
            "violations": violations,
        });
        std::env::set_var("VERIF_EVIDENCE_APPEND", "1");
        driver::write_evidence(prop, &ev);
        println!("{} {} engine=seq exhaustive depth {} ({} letters): {} histories, {} non-trivial, {:.1}s", prop, tier, depth, nl, r.evaluations, r.nontrivial, t0.elapsed().as_secs_f64());
        if code != 0 {
            break;
        }
    }
    code
}
