#!/bin/bash
# end-of-session routine: seed table, quick evidence for every property, manifest, validation
cd /verif
./seedtable.py | tail -3
mkdir -p seeded/detect-logs; cp /tmp/detect-*.log seeded/detect-logs/ 2>/dev/null
RC=0
for i in $(seq -w 1 20); do
  ./check C$i quick > /tmp/final-C$i.log 2>&1; R=$?
  echo "C$i exit $R: $(tail -1 /tmp/final-C$i.log | cut -c1-160)"
  [ $R -ne 0 ] && RC=1
done
python3 gen_manifest.py && ./validate.py | tail -2
exit $RC
