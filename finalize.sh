#!/bin/bash
# end-of-session routine: seed table, quick evidence for every property, manifest, validation
cd /verif
# (seedtable.py rebuilds section 13 from /tmp/detect-*.log of a FULL sweep; without those logs it
#  would wipe the table - rounds 6/7 have their own script)
./seedtable_r67.py | tail -3
RC=0
for i in $(seq -w 1 20); do
  ./check C$i quick > /tmp/final-C$i.log 2>&1; R=$?
  echo "C$i exit $R: $(tail -1 /tmp/final-C$i.log | cut -c1-160)"
  [ $R -ne 0 ] && RC=1
done
python3 gen_manifest.py && ./validate.py | tail -2
exit $RC
