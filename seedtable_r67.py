#!/usr/bin/env python3
"""Rounds 6 and 7: detection results of seeddetect-own.sh (owning check + named neighbours only)
-> /verif/SENSITIVITY-r6r7.md, meta.json of each seed, and the block between the markers
<!-- r67-begin --> / <!-- r67-end --> in DESIGN.md.  Logs: /tmp/detect-*-r[67]m*.log and
/verif/seeded/detect-logs/ (copied there by this script so the table can be rebuilt)."""
import re, glob, json, os, shutil
os.makedirs('/verif/seeded/detect-logs', exist_ok=True)
for f in glob.glob('/tmp/detect-*r[67]m*.log'):
    shutil.copy2(f, '/verif/seeded/detect-logs/' + os.path.basename(f))
res = {}
for f in sorted(glob.glob('/verif/seeded/detect-logs/detect-*r[67]m*.log'), key=os.path.getmtime):
    first = {}
    for l in open(f, errors='replace'):
        m = re.match(r'(\S+) (C\d\d) (conc|seq|lock|grid): +(.*)', l)
        if m: first.setdefault(m.group(1), {})[m.group(2) + '(' + m.group(3) + ')'] = m.group(4).strip()
        m = re.match(r'SUMMARY (\S+) caught_by:(.*)', l)
        if m:
            name = m.group(1); caught = [c for c in m.group(2).split() if c != 'NONE']
            prev = res.get(name, ([], {}, []))
            hist = prev[2] + [(os.path.basename(f), caught)]
            res[name] = (sorted(set(prev[0]) | set(caught)), {**prev[1], **first.get(name, {})}, hist)
rows = ["| change | what it does (its author's summary) | needs | first run: owning check | after strengthening: caught by |", "|---|---|---|---|---|"]
miss_first, miss_now = [], []
for name in sorted(res):
    caught, det, hist = res[name]
    prop = name.split('-')[0]
    d = '/verif/seeded/' + name
    summ = needs = ''
    try:
        m = json.load(open(d + '/meta.json')); summ = str(m.get('summary', ''))[:170]; needs = str(m.get('needs', ''))[:150]
        m['detected_by_quick_checks'] = caught
        m['detection_run'] = 'seeddetect-own.sh: scratch copy of /repo + patch.diff, harness rebuilt against it (cargo paths override), the owning quick check and the named neighbours with VERIF_SEED=0; runs: ' + '; '.join(h[0] + ' -> ' + (' '.join(h[1]) or 'none') for h in hist)
        json.dump(m, open(d + '/meta.json', 'w'), indent=1)
    except Exception as e: summ = '(meta unreadable: %s)' % e
    own_first = any(c.startswith(prop + '(') for c in hist[0][1])
    own_now = any(c.startswith(prop + '(') for c in caught)
    if not own_first: miss_first.append(name)
    if not own_now: miss_now.append(name)
    rows.append(f"| {name} | {summ.replace('|','/')} | {needs.replace('|','/')} | {'yes' if own_first else '**no**'} | {' '.join(caught) or '**none**'} |")
tail = ["", f"{len(res)} changes; owning check missed in the first run: {', '.join(miss_first) or 'none'}; still missed by the owning check: {', '.join(miss_now) or 'none'}", ""]
open('/verif/SENSITIVITY-r6r7.md', 'w').write("# Rounds 6 and 7 of the seeded changes\n\n" + "\n".join(rows + tail))
d = open('/verif/DESIGN.md').read()
b, e = '<!-- r67-begin -->', '<!-- r67-end -->'
if b in d:
    compact = ["| change | owning check, first run | caught by (after strengthening) |", "|---|---|---|"]
    for name in sorted(res):
        caught, det, hist = res[name]; prop = name.split('-')[0]
        compact.append(f"| {name} | {'yes' if any(c.startswith(prop + '(') for c in hist[0][1]) else 'NO'} | {' '.join(caught) or 'none'} |")
    d = d[:d.index(b) + len(b)] + "\n" + "\n".join(compact + tail) + d[d.index(e):]
    open('/verif/DESIGN.md', 'w').write(d)
print("\n".join(tail))
