#!/usr/bin/env python3
"""Miri tier (thorough only): generated single-thread histories executed by the seq engine UNDER MIRI,
so that undefined behaviour (uninitialised reads, use after free/return, invalid values) and leaked
allocations inside kanal are reported by an oracle that is independent of the harness' own detectors.
usage: miricheck.py <prop> <histories per process> ; appends a part to the evidence; exit 0/1/2."""
import json, os, re, subprocess, sys, time, hashlib
prop, per = sys.argv[1], int(sys.argv[2])
seed = int(os.environ.get("VERIF_SEED", "0") or 0)
base = os.environ.get("VERIF_OUT_DIR", "/verif")
env = dict(os.environ, CARGO_NET_OFFLINE="true", RUST_BACKTRACE="0",
           MIRIFLAGS="-Zmiri-disable-stacked-borrows -Zmiri-disable-isolation")
tdir = "/verif/target/miri"
t0 = time.time()
extra = []
if os.environ.get("VERIF_CARGO_PATHS"):
    extra = ["--config", 'paths=["%s"]' % os.environ["VERIF_CARGO_PATHS"]]
    tdir = os.environ.get("VERIF_MIRI_TARGET", "/tmp/miri-mut-target")
cmd0 = ["cargo", "+nightly", "miri", "run", "-q", "-p", "seq", "--target-dir", tdir] + extra + ["--"]
b = subprocess.run(cmd0 + ["mirirun", prop, "0", "0"], cwd="/verif", env=env, capture_output=True, text=True)
if b.returncode != 0 or "MIRIRUN-OK" not in b.stdout:
    print("miri tier could not start:\n" + (b.stderr or b.stdout)[-2500:]); sys.exit(2)
workers = 16
procs = []
os.makedirs(f"{base}/target", exist_ok=True)
for w in range(workers):
    lf = open(f"{base}/target/miri-{prop}-{w}.log", "w")
    procs.append((subprocess.Popen(cmd0 + ["mirirun", prop, str(per), str(seed * 64 + w + 1)], cwd="/verif", env=env, stdout=lf, stderr=subprocess.STDOUT), lf))
cases = 0; nontriv = 0; viol = None
for w, (p, lf) in enumerate(procs):
    p.wait(); lf.close()
    path = f"{base}/target/miri-{prop}-{w}.log"
    o = open(path, errors="replace").read()
    os.remove(path)
    m = re.search(r"MIRIRUN-OK cases=(\d+) nontrivial=(\d+)", o)
    if m:
        cases += int(m.group(1)); nontriv += int(m.group(2)); continue
    last = re.findall(r"CASE (\d+) ([0-9a-f]+)", o)
    cases += len(last)
    if viol is None:
        case = last[-1][1] if last else ""
        if "ORACLE-VIOLATION" in o:
            det = "\n".join(l for l in o.splitlines() if l.startswith("VIOL"))[:1500]; kind = "oracle violation (under Miri)"
        elif "Undefined Behavior" in o or "error: memory leaked" in o or "error:" in o:
            det = "\n".join(o.splitlines()[-40:])[:3000]
            kind = "memory leaked (Miri)" if "memory leaked" in o else "undefined behaviour reported by Miri"
        else:
            det = o[-1500:]; kind = "miri process failed"
        viol = (case, det, kind)
code = 0; violations = 0
if viol:
    case, det, kind = viol
    if kind == "miri process failed":
        print("miri tier: a process failed without a diagnosis (inconclusive):\n" + det[-600:]); code = 2
    else:
        os.makedirs(f"{base}/replays", exist_ok=True)
        rp = f"{base}/replays/{prop}-miri-{hashlib.sha1(case.encode()).hexdigest()[:16]}.json"
        json.dump({"property": prop, "engine": "seq", "case": case, "tier": "quick", "predicate": kind, "from": "seq engine under Miri",
                   "violations": [{"predicate": kind, "signature": f"{prop}/miri", "detail": det}],
                   "replay_hint": f"cd /verif && MIRIFLAGS='-Zmiri-disable-stacked-borrows -Zmiri-disable-isolation' cargo +nightly miri run -p seq --target-dir {tdir} -- hex {prop} {case}"}, open(rp, "w"), indent=1)
        print(f"VIOLATION property={prop} replay={rp}")
        print("  " + kind + ": " + det[-700:].replace("\n", "\n  "))
        code = 1; violations = 1
ev_part = {"engine": "seq-under-miri", "evaluations": cases, "distinct_nontrivial": nontriv,
           "rule": f"{workers} processes x {per} generated single-thread histories (4-40 calls over the full API alphabet, xorshift generator seeded from VERIF_SEED) executed by the lock-step engine under Miri (stacked borrows off): any undefined behaviour or leaked allocation inside the crate ends the run; non-trivial by the property's seq rule",
           "samples": [{"note": "histories are generated inside the Miri process; a failing one is saved as the replay"}], "inconclusive": 0}
path = f"{base}/evidence/{prop}.json"
try:
    old = json.load(open(path)); oc = old["coverage"]; parts = oc.get("parts") or [dict(oc)]
    parts.append(ev_part)
    for p in parts: p.pop("parts", None)
    old["coverage"] = {"evaluations": sum(p.get("evaluations", 0) for p in parts), "distinct_nontrivial": sum(p.get("distinct_nontrivial", 0) for p in parts),
                       "rule": " || ".join(f"[{p.get('engine','?')}] {p.get('rule','')}" for p in parts),
                       "samples": [s for p in parts for s in (p.get("samples") or [])[:2]], "inconclusive": sum(p.get("inconclusive", 0) for p in parts), "parts": parts}
    old["wall_s"] = old.get("wall_s", 0) + time.time() - t0; old["violations"] = old.get("violations", 0) + violations
    json.dump(old, open(path, "w"), indent=1)
except Exception as e:
    print("evidence merge failed:", e)
print(f"{prop} thorough engine=miri(seq): {cases} histories, {nontriv} non-trivial, {time.time()-t0:.1f}s, exit {code}")
sys.exit(code)
