#!/bin/bash
# seedconfirm.sh <PROP> : confirm every SEEDED/m* of /tmp/wt-<PROP> in that scratch worktree:
#   existing suite passes with the patch, demo fails with it, demo passes without it.
# Confirmed ones are copied to /verif/seeded/<PROP>-m<k>/ with confirm.json.
set -u
P="$1"; WT="${2:-/tmp/wt-$P}"; TAG="${3:-}"; export CARGO_NET_OFFLINE=true
export CARGO_TARGET_DIR="/tmp/seedtarget-$P$TAG"
cd "$WT" || exit 2
for D in "$WT"/SEEDED/m*; do
  [ -d "$D" ] || continue
  K=$(basename "$D"); OUT="/verif/seeded/$P-$TAG$K"
  git checkout -q -- . ; rm -f tests/demo_seed.rs examples/demo_seed.rs
  if ! git apply --check "$D/patch.diff" 2>/dev/null; then echo "$P $K: patch does not apply"; continue; fi
  if grep -qE '#\[(tokio::)?test' "$D/demo.rs"; then MODE=test; mkdir -p tests; DEMO=tests/demo_seed.rs; RUN="cargo test --offline --test demo_seed -- --test-threads=4"; else MODE=example; mkdir -p examples; DEMO=examples/demo_seed.rs; RUN="cargo run --offline --example demo_seed"; fi
  if grep -q 'feature = "verif"' "$D/demo.rs"; then RUN="$RUN --features verif"; RUN=$(echo "$RUN" | sed 's/ -- --test-threads=4 --features verif/ --features verif -- --test-threads=4/'); fi
  # 1. demo on pristine tree must pass
  cp "$D/demo.rs" "$DEMO"
  timeout 600 $RUN > /tmp/seed-$P-$K-pristine.log 2>&1; PR=$?
  # 2. apply patch: existing suite must pass (demo excluded), demo must fail
  git apply "$D/patch.diff"
  mv "$DEMO" /tmp/seed-$P-$K-demo.rs
  # the pinned test drain_into_test_zero_sized (100 threads, fixed 1 s sleep) flakes on the
  # pristine tree too when the machine is loaded: up to three attempts, one green run counts
  for ATT in 1 2 3; do
    timeout 900 cargo test --workspace --no-fail-fast --offline > /tmp/seed-$P-$K-suite.log 2>&1; SU=$?
    [ $SU -eq 0 ] && break
    grep -q "panicked at /rustc" /tmp/seed-$P-$K-suite.log && continue   # compiler ran out of threads
    grep -E "^test .* FAILED" /tmp/seed-$P-$K-suite.log | grep -v drain_into_test_zero_sized | grep -q . && break
  done
  # only the load flake left: that one test alone, up to five attempts (every other test passed above)
  if [ $SU -ne 0 ] && ! grep -E "^test .* FAILED" /tmp/seed-$P-$K-suite.log | grep -v drain_into_test_zero_sized | grep -q . && grep -q "drain_into_test_zero_sized ... FAILED" /tmp/seed-$P-$K-suite.log; then
    for ATT in 1 2 3 4 5; do
      timeout 300 cargo test --offline --test sync_test drain_into_test_zero_sized > /tmp/seed-$P-$K-flake.log 2>&1 && { SU=0; break; }
    done
  fi
  timeout 300 cargo build --offline --features verif > /tmp/seed-$P-$K-verifbuild.log 2>&1; VB=$?
  cp /tmp/seed-$P-$K-demo.rs "$DEMO"
  timeout 600 $RUN > /tmp/seed-$P-$K-patched.log 2>&1; PA=$?
  rm -f "$DEMO"; git checkout -q -- .
  OK=no
  if [ $PR -eq 0 ] && [ $SU -eq 0 ] && [ $VB -eq 0 ] && [ $PA -ne 0 ]; then OK=yes; fi
  echo "$P $K: demo_pristine=$PR suite_patched=$SU verif_build=$VB demo_patched=$PA confirmed=$OK"
  if [ $OK = yes ]; then
    mkdir -p "$OUT"; cp "$D/patch.diff" "$D/demo.rs" "$OUT/"
    python3 - "$D/meta.json" "$OUT/meta.json" "$P" "$K" "$MODE" <<'PY'
import json,sys
src,dst,p,k,mode=sys.argv[1:6]
try: m=json.load(open(src))
except Exception as e: m={"property":p,"summary":"(meta.json of the sub-agent unreadable: %s)"%e}
m["confirmed_by_builder"]={"ran":[
  "scratch git worktree of /repo HEAD under /tmp (property %s), target dir outside /repo and /verif"%p,
  "demo on pristine tree (%s mode): exit 0"%mode,
  "git apply patch.diff; cargo test --workspace --no-fail-fast --offline: exit 0 (existing suite still passes)",
  "cargo build --offline --features verif: exit 0",
  "demo with the patch applied: non-zero exit (fails)",
  "git checkout -- . (tree restored)"]}
json.dump(m,open(dst,"w"),indent=1)
PY
  fi
done
rm -rf "$CARGO_TARGET_DIR"
